"""C01 - derivation operators are exactly the Galois connection of the table."""

from hypothesis import strategies as st

from vlib import gen, lib, tablecheck
from vlib.oracle import positions

PROPERTY = 'C01'
RULE = ('cases are (table, side, subset, argument form): tables are every boolean table with n*m <= 12 (quick) / '
        '<= 16 (thorough) with EVERY subset of objects and of properties, Hypothesis fill families up to 10x10 with '
        'every subset (n, m <= 8) or drawn subsets, and wide tables (1-6 x 60-320 and transposed: sparse, dense, '
        'word-edge bits 31/32/33/63/64/65, long zero runs) with the empty set, the full set, every singleton, '
        'every pair whose distance is within 2 of 32/64/128 and 40 drawn subsets; each subset also passed as a '
        'shuffled list with repeats or as a one-shot iterator. Oracle (from the input bools, by definition): '
        'intension(A) == tuple of properties, in context order, that every object of A has; extension dually; empty '
        'argument gives all; raw result has the same .members() and integer value sum(2**position); '
        'objects/properties/bools reproduce the input. A (table, side, subset) query is non-trivial when the subset '
        'has >= 2 distinct members and the result is a non-empty proper subset, or the table has a dimension > 64.')
ASSUMPTIONS = ['oracle is the definition evaluated cell by cell on the input table', 'bitsets package behaves as documented']


def derive_o(rows, m, A):
    """Properties common to the objects at positions A, by definition."""
    return tuple(j for j in range(m) if all(rows[i] >> j & 1 for i in A))


def derive_p(rows, n, B):
    return tuple(i for i in range(n) if all(rows[i] >> j & 1 for j in B))


def query(ctx, context, case, plain, side, subset, form, seq_idx):
    o, p, rows = case['o'], case['p'], case['r']
    n, m = len(o), len(p)
    if side == 'o':
        want = tuple(p[j] for j in derive_o(rows, m, subset))
        names = [o[i] for i in seq_idx]
        fn, site = context.intension, 'intension'
        wantint = sum(1 << j for j in derive_o(rows, m, subset))
        other = m
    else:
        want = tuple(o[i] for i in derive_p(rows, n, subset))
        names = [p[j] for j in seq_idx]
        fn, site = context.extension, 'extension'
        wantint = sum(1 << i for i in derive_p(rows, n, subset))
        other = n
    q = lambda: {'table': plain, 'side': side, 'subset': list(subset), 'arg': list(seq_idx), 'form': form}
    nt = (len(subset) >= 2 and 0 < len(want) < other) or n > 64 or m > 64
    classes = ['side:' + side, 'form:' + form]
    if not subset:
        classes.append('empty-arg')
    if n > 64 or m > 64:
        classes.append('wider-than-64')
    if nt:
        classes.append('nontrivial')
    ctx.case(q, nt, classes)
    got = ctx.call(site, q, fn, gen.as_form(form, names))
    ctx.check(got == want, site, q, lambda: f'{site}({names}) = {got!r}, want {want!r}')
    raw = ctx.call(site + '(raw)', q, fn, gen.as_form(form, names), raw=True)
    ctx.check(raw.members() == want and int(raw) == wantint, site + '(raw)', q,
              lambda: f'raw {site}({names}) = {raw!r} int {int(raw)}, want members {want!r} int {wantint}')


def subsets_for(n, rnd, exhaustive_upto=8, drawn=40):
    if n <= exhaustive_upto:
        for mask in range(1 << n):
            yield positions(mask)
        return
    yield ()
    yield tuple(range(n))
    for i in range(n):
        yield (i,)
    starts = range(n) if n <= 150 else sorted(set(range(8)) | {31, 32, 33, 59, 60, 61, 62, 63, 64, 65, 127, 128, 129, 191, 192,
                                                       193, 255, 256, 257} | {rnd.randrange(n) for _ in range(12)})
    for i in starts:
        for d in (30, 31, 32, 33, 34, 60, 61, 62, 63, 64, 65, 66, 126, 127, 128, 129, 130, 255, 256, 257):
            if i + d < n:
                yield (i, i + d)
    for _ in range(drawn):
        k = rnd.choice([2, 3, 5, n // 2, n - 1])
        yield tuple(sorted(rnd.sample(range(n), max(1, min(n, k)))))


def check_one(case, ctx, deep, small_subsets=8):
    plain = lib.strip(case)
    o, p, rows = case['o'], case['p'], case['r']
    n, m = len(o), len(p)
    rnd = gen._random.Random(repr((rows, n, m, ctx.seed)))
    for rep_ in range(2 if deep else 1):
        if rep_:
            lib.interfere(case)   # other contexts created and queried in between (DESIGN.md 10.2)
        context = ctx.call('Context()', plain, lib.context_of, case)
        bools = gen.bools_of(case)
        ctx.check(context.objects == tuple(o) and context.properties == tuple(p) and context.bools == bools,
                  'triple', plain, lambda: f'objects/properties/bools do not reproduce the input: {context.bools!r}')
        for side, size in (('o', n), ('p', m)):
            for subset in subsets_for(size, rnd, exhaustive_upto=small_subsets):
                # canonical form, then one varied form
                query(ctx, context, case, plain, side, subset, 'tuple', subset)
                if deep or len(subset) >= 2:
                    seq = list(subset) + [rnd.choice(subset) for _ in range(rnd.randint(0, 2))] if subset else []
                    rnd.shuffle(seq)
                    query(ctx, context, case, plain, side, subset, rnd.choice(['list', 'iter', 'iter', 'set', 'frozenset', 'dict', 'keys']), seq)
                    names_ = [(o if side == 'o' else p)[i] for i in subset]
                    if len(subset) >= 2 and all(len(x) == 1 for x in names_):
                        # a str is an iterable of one-character labels - also when their concatenation is a label itself
                        query(ctx, context, case, plain, side, subset, 'str', subset)


def check_chars(case, ctx):
    """Single-character labels: the collection may then be given as a str (an iterable of labels)."""
    n, m = len(case['o']), len(case['p'])
    if n > 26 or m > 26:
        return
    case = dict(case, o=list('abcdefghijklmnopqrstuvwxyz'[:n]), p=list('ABCDEFGHIJKLMNOPQRSTUVWXYZ'[:m]))
    plain = lib.strip(case)
    context = ctx.call('Context()', plain, lib.context_of, case)
    rnd = gen._random.Random(repr((case['r'], n, m, ctx.seed, 'chars')))
    for side, size in (('o', n), ('p', m)):
        for subset in list(subsets_for(size, rnd, exhaustive_upto=3, drawn=6))[:14]:
            if len(subset) >= 2:
                query(ctx, context, case, plain, side, subset, 'str', subset)


def plan(tier, seed):
    return tablecheck.plan(tier, seed, odd=True, quick_cells=12, thorough_cells=16, thorough_shapes=(),
                           thorough_multisets=(), hyp_quick=(10, 60), hyp_thorough=(16, 600), wide=True,
                           profiles=('small', 'medium'))


def run(task, ctx):
    def both(case, ctx_, deep):
        check_one(case, ctx_, deep)
        if deep:
            check_chars(case, ctx_)
    tablecheck.run(task, ctx, both)


def replay(case, ctx):
    if 'table' in case:   # a single query
        t = case['table']
        context = lib.context_of(t)
        query(ctx, context, t, t, case['side'], tuple(case['subset']), case['form'], case['arg'])
        context = lib.context_of(t)
        query(ctx, context, t, t, case['side'], tuple(case['subset']), case['form'], case['arg'])
    else:
        check_one(case, ctx, True)
