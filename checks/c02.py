"""C02 - concept lookup returns the least formal concept containing the query."""

from vlib import gen, lib, tablecheck
from vlib.oracle import Ref, positions

PROPERTY = 'C02'
RULE = ('cases are (table, side, non-empty subset): tables exhaustive n*m <= 12 (quick) / <= 16 (thorough) and '
        'Hypothesis fill families up to 8x8 (every subset for a side <= 7, else empty/full/singletons/extents/'
        'drawn), each subset in canonical and in a shuffled-with-repeats list / iterator form. Oracle: '
        'context[A] == (A\'\', A\') and context[B] == (B\', B\'\') by the reference derivations; independently each '
        'side is the reference derivation of the other, the query is contained, and the result is contained in '
        'every reference concept containing the query; extensive / monotone (all nested pairs for small sides) / '
        'idempotent; lattice[items] and lattice(properties) return an object that IS a member of list(lattice) '
        'with that extent and intent, lattice[i] is list(lattice)[i], lattice[()] is the concept with all objects, '
        'lattice(()) likewise; raw form agrees. Non-trivial: the closure adds a member, or the result is a bottom '
        'with non-empty extent or a top with non-empty intent.')
ASSUMPTIONS = ['reference model vlib/oracle.py', 'bitsets package behaves as documented']


def subsets_for(size, ref_sets, rnd, limit=7):
    if size <= limit:
        return [positions(mk) for mk in range(1, 1 << size)]
    out = {tuple(range(size))} | {(i,) for i in range(size)} | {positions(s) for s in ref_sets if s}
    for _ in range(12):
        out.add(positions(rnd.getrandbits(size)) or (0,))
    return sorted(out)


def check_one(case, ctx, deep):
    plain = lib.strip(case)
    ref = Ref.of(case)
    cs = ref.concepts
    maps = lib.Maps(case)
    o, p = case['o'], case['p']
    n, m = ref.n, ref.m
    rnd = gen._random.Random(repr((case['r'], n, m, ctx.seed)))
    for rep_ in range(2 if deep else 1):
        if rep_:
            lib.interfere(case)   # other contexts created and queried in between (DESIGN.md 10.2)
        context = ctx.call('Context()', plain, lib.context_of, case)
        lattice = ctx.call('context.lattice', plain, lambda: context.lattice)
        members = list(lattice)
        by_ext = {maps.omask(c.extent): c for c in members}
        ctx.check(set(by_ext) == set(ref.index), 'concept-set', plain, 'lattice is not the concept set (see C03)')
        for k, c in enumerate(members):
            ctx.check(lattice[k] is c, 'lattice[int]', plain, f'lattice[{k}] is not the {k}-th member')
        top = by_ext[ref.full_o]
        ctx.check(ctx.call('lattice[()]', plain, lambda: lattice[()]) is top, 'lattice[()]', plain,
                  'lattice[()] is not the concept with all objects')
        ctx.check(ctx.call('lattice(())', plain, lambda: lattice(())) is top, 'lattice(())', plain,
                  'lattice(()) is not the concept with all objects')
        closures = {'o': {}, 'p': {}}
        for side, size in (('o', n), ('p', m)):
            names = o if side == 'o' else p
            ref_sets = [c[0] if side == 'o' else c[1] for c in cs]
            for subset in subsets_for(size, ref_sets, rnd):
                Q = sum(1 << i for i in subset)
                if side == 'o':
                    ext, intent = ref.close_o(Q), ref.intent_of(Q)
                    closed_grew = ext != Q
                else:
                    ext, intent = ref.extent_of(Q), ref.close_p(Q)
                    closed_grew = intent != Q
                want = (maps.olabels(ext), maps.plabels(intent))
                q = lambda: {'table': plain, 'side': side, 'subset': list(subset)}
                nt = closed_grew or (ext == cs[0][0] and ext != 0) or (ext == ref.full_o and intent != 0)
                classes = ['side:' + side]
                if closed_grew:
                    classes.append('closure_adds')
                if ext == cs[0][0] and ext:
                    classes.append('bottom_nonempty')
                if ext == ref.full_o and intent:
                    classes.append('top_intent_nonempty')
                ctx.case(q, nt, classes)
                labels = [names[i] for i in subset]
                seq = labels + [rnd.choice(labels) for _ in range(rnd.randint(0, 2))]
                rnd.shuffle(seq)
                # re-iterable collections; a one-shot iterator only of OBJECT labels (DESIGN.md 10.4: the lookup tries
                # the argument as objects first, so an iterator of property labels is spent before they are looked at)
                form = rnd.choice(['list', 'tuple', 'set', 'frozenset', 'dict', 'keys'] + (['iter'] if side == 'o' else []))
                got = ctx.call('context[]', q, context.__getitem__, tuple(labels))
                ctx.check(got == want, 'context[]', q, lambda: f'context[{labels}] = {got!r}, want {want!r}')
                if form == 'iter':
                    # an explicit refusal of one-shot iterators (TypeError) is compatible with "collection"; a wrong answer is not
                    try:
                        context[gen.as_form(form, seq)]
                    except TypeError:
                        ctx.count('iterator_lookup_refused')
                        form = 'list'
                    except Exception:  # noqa: BLE001 - judged by the call below
                        pass
                if len(labels) >= 2 and all(len(x) == 1 for x in labels):
                    # a str is an iterable of one-character labels - also when their concatenation is a label itself
                    got_s = ctx.call('context[](str)', q, context.__getitem__, ''.join(seq))
                    ctx.check(got_s == want, 'context[](str)', q, lambda: f'context[{"".join(seq)!r}] = {got_s!r}, want {want!r}')
                got2 = ctx.call('context[](form)', q, context.__getitem__, gen.as_form(form, seq))
                ctx.check(got2 == want, 'context[](form)', q, lambda: f'context[{seq}] ({form}) = {got2!r}, want {want!r}')
                # independent of the closure formula: formal concept, contains query, least
                ge, gi = maps.omask(got[0]), maps.pmask(got[1])
                ctx.check(ref.intent_of(ge) == gi and ref.extent_of(gi) == ge, 'is-concept', q,
                          lambda: f'context[{labels}] = {got!r} is not a formal concept')
                if side == 'o':
                    ctx.check(ge & Q == Q, 'contains-query', q, 'extent does not contain the query')
                    ctx.check(all(ge & c[0] == ge for c in cs if c[0] & Q == Q), 'least', q,
                              'extent is not contained in every concept extent containing the query')
                else:
                    ctx.check(gi & Q == Q, 'contains-query', q, 'intent does not contain the query')
                    ctx.check(all(gi & c[1] == gi for c in cs if c[1] & Q == Q), 'least', q,
                              'intent is not contained in every concept intent containing the query')
                closures[side][Q] = ge if side == 'o' else gi
                raw = ctx.call('context[](raw)', q, context.__getitem__, gen.as_form(form, seq), raw=True)
                ctx.check((raw[0].members(), raw[1].members()) == want and (int(raw[0]), int(raw[1])) == (ext, intent),
                          'context[](raw)', q, lambda: f'raw context[{seq}] = {raw!r}')
                member = ctx.call('lattice[]', q, lattice.__getitem__, gen.as_form(form, seq))
                ctx.check(any(member is x for x in members), 'lattice[]/identity', q,
                          f'lattice[{seq}] is not a member object of the lattice')
                ctx.check((member.extent, member.intent) == want, 'lattice[]', q,
                          lambda: f'lattice[{seq}] = {member!r}, want {want!r}')
                if side == 'p':
                    member = ctx.call('lattice()', q, lattice, gen.as_form(rnd.choice(['list', 'tuple', 'iter']), seq))
                    ctx.check(any(member is x for x in members) and (member.extent, member.intent) == want,
                              'lattice()', q, lambda: f'lattice({seq}) = {member!r}, want {want!r}')
            # closure laws on what the library returned
            cl = closures[side]
            for Q, C in cl.items():
                ctx.check(C & Q == Q, 'extensive', plain, f'closure of {positions(Q)} on side {side} does not contain it')
                if C in cl:
                    ctx.check(cl[C] == C, 'idempotent', plain,
                              lambda: f'closure of closure of {positions(Q)} on side {side} differs')
            if size <= 5:
                for Q1, C1 in cl.items():
                    for Q2, C2 in cl.items():
                        if Q1 & Q2 == Q1:
                            ctx.check(C1 & C2 == C1, 'monotone', plain,
                                      lambda: f'side {side}: {positions(Q1)} <= {positions(Q2)} but closures are not nested')


def plan(tier, seed):
    return tablecheck.plan(tier, seed, wide=True, odd=True, quick_cells=11, thorough_cells=16, thorough_shapes=(), thorough_multisets=(),
                           hyp_quick=(12, 120), hyp_thorough=(16, 1200), profiles=('small', (8, 8)))


def run(task, ctx):
    tablecheck.run(task, ctx, check_one)


def replay(case, ctx):
    check_one(case['table'] if 'table' in case else case, ctx, True)
