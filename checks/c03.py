"""C03 - the lattice contains exactly the formal concepts of the context, once each."""

from vlib import bigcases, gen, lib, tablecheck
from vlib.oracle import Ref

PROPERTY = 'C03'
RULE = ('cases are context tables (plus Hypothesis tables wider than a machine word: 1-6 x 60-320 and transposed): every boolean table with n*m <= 12 (quick) / <= 18 plus 4x5, 5x4 and '
        'all row multisets of 5x5 and 6x4 (thorough), labels permuted against position, plus Hypothesis '
        'tables from explicit fill families (Bernoulli density classes, nominal/ordinal/interordinal/'
        'contranominal/dichotomic scales and appositions, perturbed by flips, duplicated/full/empty rows and '
        'columns, meet rows). Oracle: set of (extent, intent) label pairs of iter(context.lattice) == brute-force '
        'closure-system model, no repeats, len() agrees, top and bottom present. A case is non-trivial when the '
        'table has >= 4 formal concepts; distinct = distinct (objects, properties, rows) triples.')
ASSUMPTIONS = ['reference model vlib/oracle.py (self-tested against a frozenset restatement at start-up)',
               'bitsets package behaves as documented']


def check_one(case, ctx, deep):
    case = lib.strip(case) | ({'f': case['f']} if 'f' in case else {})
    ref = Ref.of(case)
    expected = ref.concept_set()
    maps = lib.Maps(case)
    plain = lib.strip(case)
    classes = lib.table_classes(case) + [lib.size_bucket(len(expected))]
    bottom = ref.close_o(0)
    if bottom:
        classes.append('bottom_nonempty')
    if ref.intent_of(ref.full_o):
        classes.append('top_intent_nonempty')
    ctx.case(plain, len(expected) >= 4, classes)
    for rep_ in range(2 if deep else 1):
        if rep_:
            lib.interfere(case)   # other contexts created and queried in between (DESIGN.md 10.2)
        context = ctx.call('Context()', plain, lib.context_of, case)
        lattice = ctx.call('context.lattice', plain, lambda: context.lattice)
        listed = ctx.call('iter(lattice)', plain, lambda: [(c.extent, c.intent) for c in lattice])
        for ext, intent in listed:
            ctx.check(len(set(ext)) == len(ext) and len(set(intent)) == len(intent), 'concept-tuple-repeats',
                      plain, lambda: f'repeated member in {ext!r} / {intent!r}')
        got = [(maps.omask(e), maps.pmask(i)) for e, i in listed]
        ctx.check(len(set(got)) == len(got), 'concept-repeated', plain,
                  lambda: f'lattice yields a concept twice: {listed!r}')
        ctx.check(set(got) == expected, 'concept-set', plain,
                  lambda: (f'missing {sorted(expected - set(got))} extra {sorted(set(got) - expected)}'
                           f' (extent mask, intent mask)'))
        ctx.check(len(lattice) == len(expected), 'len', plain,
                  lambda: f'len(lattice)={len(lattice)} but {len(expected)} formal concepts')
        exts = {g[0] for g in got}
        ctx.check(ref.full_o in exts, 'top-missing', plain, 'no concept with all objects')
        ctx.check(bottom in exts, 'bottom-missing', plain, 'closure of the empty object set is missing')
        if all(r == ref.full_p for r in case['r']):
            ctx.check(len(got) == 1, 'all-crosses', plain, f'all-true table has {len(got)} concepts')


def plan(tier, seed):
    tasks = tablecheck.plan(tier, seed, wide=True, tall=True, odd=True, thorough_cells=18, fixed=('chain:520',))
    if tier == 'thorough':
        tasks = [{'kind': 'big-dense', 'n': 20, 'm': 40, 'fill': 0.85, 'seed': seed}] + tasks
    return tasks


def fixed_cases(name):
    # a chain of 520 concepts: deeper than any recursion over lattice levels survives
    kind, size = name.split(':')
    yield dict(bigcases.chain(int(size)), f='big-' + kind)


def big_dense(ctx, task):
    """A dense 20 x 40 table (about 10**5 concepts): no extent twice, as many concepts as the FCbO generator finds,
    and the same number again with the rows reversed."""
    import concepts
    from concepts import algorithms
    case = bigcases.dense(task['n'], task['m'], task['fill'], task['seed'])
    plain = {'family': 'dense', **{k: task[k] for k in ('n', 'm', 'fill', 'seed')}}
    ctx.case(plain, True, ['big-dense'])
    counts = []
    for tag, rows in (('', case['r']), ('rows-reversed/', case['r'][::-1])):
        context = ctx.call(tag + 'Context()', plain, concepts.Context, case['o'], case['p'],
                           gen.bools_of(dict(case, r=rows)))
        lattice = ctx.call(tag + 'context.lattice', plain, lambda: context.lattice)
        extents = {c._extent if hasattr(c, '_extent') else c.extent for c in lattice}
        n_fcbo = ctx.call(tag + 'fast_generate_from', plain, lambda: sum(1 for _ in algorithms.fast_generate_from(context)))
        ctx.check(len(extents) == len(lattice), tag + 'big/extent-twice', plain,
                  lambda: f'{len(lattice)} concepts but {len(extents)} distinct extents')
        ctx.check(len(lattice) == n_fcbo, tag + 'big/count', plain,
                  lambda: f'len(lattice) = {len(lattice)}, the FCbO generator finds {n_fcbo}')
        counts.append(len(lattice))
    ctx.check(counts[0] == counts[1], 'big/count-under-row-reversal', plain, lambda: f'{counts[0]} vs {counts[1]} concepts')


def run(task, ctx):
    if task['kind'] == 'big-dense':
        ctx.guarded(big_dense, ctx, task)
        return
    tablecheck.run(task, ctx, check_one, fixed_cases=fixed_cases)


def replay(case, ctx):
    check_one(case, ctx, True)
