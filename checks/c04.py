"""C04 - all concept generators agree on the set of concepts."""

from vlib import lib, tablecheck
from vlib.oracle import Ref

PROPERTY = 'C04'
RULE = ('cases are context tables (plus Hypothesis tables wider than a machine word: 1-6 x 60-320 and transposed) as for C03 (exhaustive n*m <= 12 quick / <= 18, 4x5, 5x4, 5x5 and 6x4 row multisets '
        'thorough; Hypothesis fill families beyond). Oracle: each of fast_generate_from, fcbo_dual, iterconcepts, '
        'get_concepts yields a repeat-free sequence whose set of (extent, intent) equals the brute-force concept set '
        '(hence they agree with each other and with context.lattice); wrappers yield Concept named tuples / a '
        'ConceptList; one iterator of each generator is half-consumed before, kept alive during, and drained after the '
        'other calls on the same context, and get_concepts is called twice. Emission order is not checked. Non-trivial: >= 4 concepts AND some concept (A, B) and '
        'property j not in B such that the closure of B+{j} contains a lower-numbered property outside B, or dually '
        'for objects (the situation FCbO\'s canonicity test exists for), as computed by the reference model.')
ASSUMPTIONS = ['reference model vlib/oracle.py', 'bitsets package behaves as documented']


def canonicity_matters(ref):
    """Some closure adds a lower-numbered member than the one being added (either direction)."""
    for ext, intent in ref.concepts:
        for j in range(ref.m):
            if intent >> j & 1:
                continue
            closed = ref.intent_of(ext & ref.cols[j])
            if closed & ~intent & ((1 << j) - 1):
                return True
        for i in range(ref.n):
            if ext >> i & 1:
                continue
            closed = ref.extent_of(intent & ref.rows[i])
            if closed & ~ext & ((1 << i) - 1):
                return True
    return False


def check_one(case, ctx, deep):
    import concepts
    from concepts import algorithms
    plain = lib.strip(case)
    ref = Ref.of(case)
    expected = ref.concept_set()
    maps = lib.Maps(case)
    nontrivial = len(expected) >= 4 and canonicity_matters(ref)
    classes = lib.table_classes(case) + [lib.size_bucket(len(expected))]
    if nontrivial:
        classes.append('canonicity_test_decides')
    ctx.case(plain, nontrivial, classes)
    for rep_ in range(2 if deep else 1):
        if rep_:
            lib.interfere(case)   # other contexts created and queried in between (DESIGN.md 10.2)
        context = ctx.call('Context()', plain, lib.context_of, case)
        gens = [('fast_generate_from', lambda: list(algorithms.fast_generate_from(context))),
                ('fcbo_dual', lambda: list(algorithms.fcbo_dual(context))),
                ('iterconcepts', lambda: list(algorithms.iterconcepts(context))),
                ('get_concepts', lambda: algorithms.get_concepts(context))]
        # a half-consumed iterator of each generator stays alive while the others run (call history on ONE context)
        peeks = {}
        for name, make in (('iterconcepts', algorithms.iterconcepts), ('fast_generate_from', algorithms.fast_generate_from),
                           ('fcbo_dual', algorithms.fcbo_dual)):
            it = ctx.call(name + '/iter', plain, make, context)
            peeks[name] = (it, [ctx.call(name + '/next', plain, next, it)])
        for name, fn in gens:
            out = ctx.call(name, plain, fn)
            pairs = ctx.call(name + '/members', plain,
                             lambda: [(maps.omask(e.members()), maps.pmask(i.members())) for e, i in out])
            ctx.check(len(set(pairs)) == len(pairs), name + '/repeat', plain,
                      lambda: f'{name} yields a concept twice: {sorted(pairs)}')
            ctx.check(set(pairs) == expected, name + '/set', plain,
                      lambda: f'{name}: missing {sorted(expected - set(pairs))} extra {sorted(set(pairs) - expected)}')
            # raw ints must agree with their member tuples
            for (e, i), (em, im) in zip(out, pairs):
                ctx.check(int(e) == em and int(i) == im, name + '/raw-vs-members', plain,
                          lambda: f'{name}: raw value {int(e)},{int(i)} != members {em},{im}')
            if name == 'get_concepts':   # "the list wrapper"; the classes of list and items are not part of the statement
                ctx.check(isinstance(out, list), name + '/type', plain, 'get_concepts() is not a list')
        for name, (it, got) in peeks.items():
            got += ctx.call(name + '/resume', plain, list, it)
            pairs = [(maps.omask(e.members()), maps.pmask(i.members())) for e, i in got]
            ctx.check(len(set(pairs)) == len(pairs) and set(pairs) == expected, name + '/interleaved', plain,
                      lambda: f'{name} iterator resumed after other generator calls on the same context yields {sorted(pairs)}')
        again = ctx.call('get_concepts/again', plain, algorithms.get_concepts, context)
        ctx.check({(maps.omask(e.members()), maps.pmask(i.members())) for e, i in again} == expected and len(again) == len(expected),
                  'get_concepts/again', plain, 'second get_concepts() on the same context differs')
        if deep:
            lattice = ctx.call('context.lattice', plain, lambda: context.lattice)
            lat = {(maps.omask(c.extent), maps.pmask(c.intent)) for c in lattice}
            ctx.check(lat == expected, 'lattice-vs-generators', plain, 'context.lattice differs from the generators')


def plan(tier, seed):
    tasks = tablecheck.plan(tier, seed, wide=True, tall=(4, 30) if tier == 'quick' else (8, 300), thorough_cells=18)
    return [{'kind': 'big-boolean', 'n': 14 if tier == 'quick' else 19}] + tasks


def big_boolean(ctx, n):
    """Every generator on the contranominal scale of size n: exactly the 2**n pairs (S, complement of S), each once."""
    from concepts import algorithms
    from vlib import bigcases
    case = bigcases.contranominal(n)
    plain = {'family': 'contranominal', 'n': n}
    ctx.case(plain, True, ['big-boolean'])
    context = ctx.call('Context()', plain, lib.context_of, case, False)
    full = (1 << n) - 1
    for name, make in (('fast_generate_from', algorithms.fast_generate_from), ('fcbo_dual', algorithms.fcbo_dual),
                       ('iterconcepts', algorithms.iterconcepts)):
        def drain():
            seen = set()
            count = 0
            for e, i in make(context):
                e, i = int(e), int(i)
                if i != full ^ e:
                    ctx.fail('big/' + name + '/not-a-concept', plain, f'{name} yields extent {e:b} with intent {i:b}')
                seen.add(e)
                count += 1
            return count, len(seen)
        count, distinct = ctx.call('big/' + name, plain, drain)
        ctx.check(count == distinct == 1 << n, 'big/' + name + '/count', plain,
                  lambda: f'{name} yields {count} pairs, {distinct} distinct, want {1 << n}')


def run(task, ctx):
    if task['kind'] == 'big-boolean':
        ctx.guarded(big_boolean, ctx, task['n'])
        return
    tablecheck.run(task, ctx, check_one)


def replay(case, ctx):
    check_one(case, ctx, True)
