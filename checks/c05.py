"""C05 - neighbour links are exactly the covering relation (Hasse diagram)."""

from vlib import gen, lib, tablecheck
from vlib.oracle import Ref, positions

PROPERTY = 'C05'
RULE = ('cases are context tables (plus Hypothesis tables wider than a machine word: 1-6 x 60-320 and transposed) (exhaustive n*m <= 12 quick / <= 16 + 4x5, 5x4 + multisets thorough; Hypothesis '
        'families beyond) x every concept, and for Context.neighbors every object subset (n <= 7) or the empty set, '
        'every singleton, every extent and 8 seed-derived subsets. Oracle: upper_neighbors / lower_neighbors as '
        'sets equal the covers computed by search over the brute-force concept set, no repeats, converse checked on '
        'the objects themselves; context.neighbors(A) (label and raw form) equals the upper covers of A\'\'. '
        'Non-trivial: some concept has >= 2 upper covers of different extent sizes, or some candidate closure '
        '(A + g)\'\' of an extent A is not a cover (the branch the minimality bookkeeping of Lindig handles).')
ASSUMPTIONS = ['reference model vlib/oracle.py', 'bitsets package behaves as documented']


def nontrivial_table(ref):
    upper, _ = ref.covers()
    cs = ref.concepts
    for i, ups in enumerate(upper):
        if len({bin(cs[j][0]).count('1') for j in ups}) >= 2:
            return True
        ext = cs[i][0]
        covers = {cs[j][0] for j in ups}
        for g in range(ref.n):
            if not ext >> g & 1 and ref.close_o(ext | 1 << g) not in covers:
                return True
    return False


def check_one(case, ctx, deep):
    plain = lib.strip(case)
    ref = Ref.of(case)
    cs = ref.concepts
    upper, lower = ref.covers()
    maps = lib.Maps(case)
    nt = nontrivial_table(ref)
    classes = lib.table_classes(case) + [lib.size_bucket(len(cs))]
    if nt:
        classes.append('mixed_covers_or_noncover_candidate')
    ctx.case(plain, nt, classes)
    for rep_ in range(2 if deep else 1):
        if rep_:
            lib.interfere(case)   # other contexts created and queried in between (DESIGN.md 10.2)
        context = ctx.call('Context()', plain, lib.context_of, case)
        lattice = ctx.call('context.lattice', plain, lambda: context.lattice)
        def check_links(lattice, tag):
            members = list(lattice)
            by_ext = {}
            for c in members:
                by_ext[maps.omask(c.extent)] = c
            ctx.check(set(by_ext) == set(ref.index), tag + 'concept-set', plain, 'lattice is not the concept set (see C03)')
            for k, (ext, _) in enumerate(cs):
                c = by_ext[ext]
                for attr, exp in (('upper_neighbors', upper[k]), ('lower_neighbors', lower[k])):
                    got = [maps.omask(d.extent) for d in getattr(c, attr)]
                    want = {cs[j][0] for j in exp}
                    ctx.check(len(set(got)) == len(got), tag + attr + '/repeat', plain,
                              lambda: f'{attr} of extent {positions(ext)} repeats: {got}')
                    ctx.check(set(got) == want, tag + attr, plain,
                              lambda: f'{tag}{attr} of extent {positions(ext)}: got {sorted(map(positions, got))}'
                                      f' want {sorted(map(positions, want))}')
                    for d in getattr(c, attr):
                        ctx.check(any(d is x for x in members), tag + attr + '/identity', plain,
                                  f'{attr} holds an object that is not a member of the lattice')
                for d in c.upper_neighbors:
                    ctx.check(any(x is c for x in d.lower_neighbors), tag + 'converse', plain,
                              lambda: f'{positions(ext)} has upper neighbour {d.extent} which lacks it as lower neighbour')
                for d in c.lower_neighbors:
                    ctx.check(any(x is c for x in d.upper_neighbors), tag + 'converse', plain,
                              lambda: f'{positions(ext)} has lower neighbour {d.extent} which lacks it as upper neighbour')

        check_links(lattice, '')
        if deep and rep_ == 0 and len(cs) <= 64:
            # copies of the lattice made AFTER the caller took the serialised form and modified it in place
            import copy
            import pickle
            import concepts
            ctx.call('todict/wreck', plain, lambda: lib.wreck(context.todict()))
            check_links(ctx.call('pickle(lattice)', plain, lambda: pickle.loads(pickle.dumps(lattice))), 'after-caller-edit/pickled/')
            check_links(ctx.call('deepcopy(lattice)', plain, copy.deepcopy, lattice), 'after-caller-edit/deepcopy/')
            check_links(ctx.call('fromdict(todict())', plain, lambda: concepts.Context.fromdict(context.todict()).lattice),
                        'after-caller-edit/fromdict/')
        # Context.neighbors
        n = ref.n
        if n <= 7 and (deep or n <= 4):
            subsets = range(1 << n)
        else:
            rnd = gen._random.Random(repr((case['r'], ctx.seed)))
            singles = range(n) if n <= 40 else sorted({0, n - 1, 59, 60, 63, 64} & set(range(n)) | set(rnd.sample(range(n), 12)))
            subsets = {0, ref.full_o} | {1 << i for i in singles} | set(rnd.sample([c[0] for c in cs], min(len(cs), 24)))
            subsets |= {rnd.getrandbits(n) for _ in range(8)}
            subsets = sorted(subsets)
        for A in subsets:
            k = ref.index[ref.close_o(A)]
            want = {(cs[j][0], cs[j][1]) for j in upper[k]}
            labels = maps.olabels(A)
            got = ctx.call('context.neighbors', plain, context.neighbors, list(labels))
            gotm = [(maps.omask(e), maps.pmask(i)) for e, i in got]
            ctx.check(len(set(gotm)) == len(gotm) and set(gotm) == want, 'context.neighbors', plain,
                      lambda: f'neighbors({list(labels)}) = {got!r}, want extents {sorted(positions(w[0]) for w in want)}')
            rep = labels[::-1] + labels[:2]      # same set: reversed, with repeats, as a one-shot iterator
            raw = ctx.call('context.neighbors(raw)', plain, context.neighbors, iter(rep), raw=True)
            rawm = [(maps.omask(e.members()), maps.pmask(i.members())) for e, i in raw]
            ctx.check(sorted(rawm) == sorted(gotm), 'context.neighbors(raw)', plain,
                      lambda: f'raw form differs for {list(labels)}: {rawm} vs {gotm}')
            if len(labels) >= 2 and all(len(x) == 1 for x in labels):
                # a str is an iterable of one-character labels - also when their concatenation is a label itself
                got_s = ctx.call('context.neighbors(str)', plain, context.neighbors, ''.join(labels))
                ctx.check(sorted((maps.omask(e), maps.pmask(i)) for e, i in got_s) == sorted(gotm), 'context.neighbors(str)', plain,
                          lambda: f'neighbors({"".join(labels)!r}) = {got_s!r} differs from neighbors({list(labels)})')
            if deep and isinstance(got, list):
                lib.wreck(got)   # the list belongs to the caller; the next answer may not depend on it
                got2 = ctx.call('context.neighbors', plain, context.neighbors, list(labels))
                ctx.check(sorted((maps.omask(e), maps.pmask(i)) for e, i in got2) == sorted(gotm), 'context.neighbors/after-caller-edit',
                          plain, lambda: f'neighbors({list(labels)}) after the caller modified the earlier result: {got2!r}')


def plan(tier, seed):
    return tablecheck.plan(tier, seed, hyp_quick=(12, 150), hyp_thorough=(16, 1500), wide=True, tall=True, odd=True)


def run(task, ctx):
    tablecheck.run(task, ctx, check_one)


def replay(case, ctx):
    check_one(case, ctx, True)
