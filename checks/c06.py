"""C06 - canonical order: shortlex iteration, index/dindex ranks, bottom first, top last."""

from hypothesis import strategies as st

from vlib import gen, lib, tablecheck
from vlib.oracle import Ref, positions, shortlex_key, longlex_key

PROPERTY = 'C06'
RULE = ('cases are context tables (plus Hypothesis tables wider than a machine word: 1-6 x 60-320 and transposed) (exhaustive n*m <= 12 quick / <= 16 + 4x5, 5x4 + multisets thorough; Hypothesis '
        'families beyond) whose object labels are a seed-derived / drawn permutation, so label order differs from '
        'positional order. Oracle on three lattices per table (computed; reloaded by fromdict(todict()); reloaded '
        'with raw=True from a permuted serialisation, as dict and as JSON text): iteration sorted by (len(extent), object positions), '
        'index = position, dindex = position in (-len, positions) order, infimum is first and least, supremum is '
        'last and greatest, atoms = upper covers of the infimum, every upper_neighbors tuple sorted shortlex and '
        'every lower_neighbors tuple sorted longlex. Non-trivial: two same-size extents whose label order and '
        'position order disagree, or a neighbour tuple with mixed extent sizes.')
ASSUMPTIONS = ['reference model vlib/oracle.py', 'bitsets package behaves as documented']


def permuted_dict(d, rnd):
    """A raw=True-legal permutation of a todict() result; the parts to permute are chosen independently."""
    lat = d['lattice']
    k = len(lat)
    flags = [rnd.random() < .5 for _ in range(3)]
    if not any(flags):
        flags[rnd.randrange(3)] = True
    p_lattice, p_neighbours, p_members = flags
    perm = list(range(k))
    if p_lattice:
        rnd.shuffle(perm)          # new position p holds old concept perm[p]
    newpos = {old: new for new, old in enumerate(perm)}

    def sh(seq, on=True):
        seq = list(seq)
        if on:
            rnd.shuffle(seq)
        return tuple(seq)
    out = dict(d)
    out['context'] = [sh(row, p_members) for row in d['context']]
    out['lattice'] = [(sh(lat[old][0], p_members), sh(lat[old][1], p_members),
                       sh((newpos[u] for u in lat[old][2]), p_neighbours),
                       sh((newpos[l] for l in lat[old][3]), p_neighbours))
                      for old in perm]
    return out


def check_lattice(lattice, tag, case, ref, maps, ctx, plain):
    cs = ref.concepts
    upper, lower = ref.covers()
    members = list(lattice)
    exts = [maps.omask(c.extent) for c in members]
    ctx.check(exts == [c[0] for c in cs], tag + 'iteration-order', plain,
              lambda: f'iteration {list(map(positions, exts))} != shortlex {[positions(c[0]) for c in cs]}')
    dindex = ref.dindex()
    for k, c in enumerate(members):
        ctx.check(c.index == k, tag + 'index', plain, lambda: f'concept {positions(exts[k])}.index={c.index}, position {k}')
        ctx.check(c.dindex == dindex[k], tag + 'dindex', plain,
                  lambda: f'concept {positions(exts[k])}.dindex={c.dindex}, longlex position {dindex[k]}')
        ctx.check(lattice[k] is c, tag + 'getitem-int', plain, f'lattice[{k}] is not the {k}-th member')
        ups = [maps.omask(d.extent) for d in c.upper_neighbors]
        ctx.check(ups == sorted(ups, key=shortlex_key), tag + 'upper-order', plain,
                  lambda: f'upper_neighbors of {positions(exts[k])} not shortlex: {list(map(positions, ups))}')
        los = [maps.omask(d.extent) for d in c.lower_neighbors]
        ctx.check(los == sorted(los, key=longlex_key), tag + 'lower-order', plain,
                  lambda: f'lower_neighbors of {positions(exts[k])} not longlex: {list(map(positions, los))}')
    ctx.check(lattice.infimum is members[0], tag + 'infimum', plain, 'infimum is not the first member')
    ctx.check(lattice.supremum is members[-1], tag + 'supremum', plain, 'supremum is not the last member')
    ctx.check(all(exts[0] & e == exts[0] for e in exts), tag + 'infimum-least', plain, 'infimum is not below all')
    ctx.check(all(exts[-1] | e == exts[-1] for e in exts), tag + 'supremum-greatest', plain, 'supremum is not above all')
    atoms = [maps.omask(a.extent) for a in lattice.atoms]
    ctx.check(sorted(atoms) == sorted(cs[j][0] for j in upper[0]) and len(set(atoms)) == len(atoms),
              tag + 'atoms', plain, lambda: f'atoms {list(map(positions, atoms))} != upper covers of the infimum')
    ctx.check(atoms == sorted(atoms, key=shortlex_key), tag + 'atoms-order', plain, 'atoms not in shortlex order')


def nontrivial_table(ref, maps):
    cs = ref.concepts
    upper, lower = ref.covers()
    for a, b in zip(cs, cs[1:]):
        if bin(a[0]).count('1') == bin(b[0]).count('1'):
            la, lb = maps.olabels(a[0]), maps.olabels(b[0])
            if (la < lb) != (positions(a[0]) < positions(b[0])):
                return True
    for k in range(len(cs)):
        for nb in (upper[k], lower[k]):
            if len({bin(cs[j][0]).count('1') for j in nb}) >= 2:
                return True
    return False


def check_one(case, ctx, deep):
    import concepts
    plain = lib.strip(case)
    ref = Ref.of(case)
    maps = lib.Maps(case)
    nt = nontrivial_table(ref, maps)
    classes = lib.table_classes(case) + [lib.size_bucket(len(ref.concepts))]
    ctx.case(plain, nt, classes)
    for rep_ in range(2 if deep else 1):
        if rep_:
            lib.interfere(case)   # other contexts created and queried in between (DESIGN.md 10.2)
        context = ctx.call('Context()', plain, lib.context_of, case)
        lattice = ctx.call('context.lattice', plain, lambda: context.lattice)
        ctx.check(len(lattice) == len(ref.concepts), 'concept-set', plain, 'lattice is not the concept set (see C03)')
        check_lattice(lattice, '', case, ref, maps, ctx, plain)
        d = ctx.call('todict', plain, context.todict)
        loaded = ctx.call('fromdict', plain, concepts.Context.fromdict, d)
        if 'lattice' in getattr(loaded, '__dict__', {}):   # not required by the statement - only counted for the evidence
            ctx.count('reloaded_with_stored_lattice_attached')
        check_lattice(loaded.lattice, 'fromdict/', case, ref, maps, ctx, plain)
        rnd = gen._random.Random(repr((case['r'], ctx.seed, 'raw')))
        pd = permuted_dict(d, rnd)
        loaded = ctx.call('fromdict(raw)', plain, concepts.Context.fromdict, pd, raw=True)
        check_lattice(loaded.lattice, 'fromdict(raw)/', case, ref, maps, ctx, plain)
        if deep:
            # second hop: what was loaded from a permuted encoding is serialised again and reloaded (ordered reload, pickle)
            import pickle
            d2 = ctx.call('fromdict(raw)/todict', plain, loaded.todict)
            again = ctx.call('fromdict(raw)/todict/fromdict', plain, concepts.Context.fromdict, d2)
            check_lattice(again.lattice, 'fromdict(raw)/second-hop/', case, ref, maps, ctx, plain)
            check_lattice(ctx.call('fromdict(raw)/pickle', plain, lambda: pickle.loads(pickle.dumps(loaded.lattice))),
                          'fromdict(raw)/pickle/', case, ref, maps, ctx, plain)
        import io
        import json
        loaded = ctx.call('fromjson(raw)', plain, concepts.Context.fromjson, io.StringIO(json.dumps(pd)), raw=True)
        check_lattice(loaded.lattice, 'fromjson(raw)/', case, ref, maps, ctx, plain)
        if deep and len(ref.concepts) <= 200:
            # the other ways a lattice comes back: the python-literal text (the lattice is embedded once computed),
            # plain JSON text, pickle and deepcopy
            import copy
            import pickle
            text = ctx.call('tostring(python-literal)', plain, context.tostring, 'python-literal')
            loaded = ctx.call('fromstring(python-literal)', plain, concepts.Context.fromstring, text, 'python-literal')
            check_lattice(loaded.lattice, 'python-literal/', case, ref, maps, ctx, plain)
            buf = io.StringIO()
            ctx.call('tojson', plain, context.tojson, buf)
            loaded = ctx.call('fromjson', plain, concepts.Context.fromjson, io.StringIO(buf.getvalue()))
            check_lattice(loaded.lattice, 'json/', case, ref, maps, ctx, plain)
            check_lattice(ctx.call('pickle(lattice)', plain, lambda: pickle.loads(pickle.dumps(lattice))), 'pickle/', case, ref, maps,
                          ctx, plain)
            check_lattice(ctx.call('deepcopy(context)', plain, lambda: copy.deepcopy(context).lattice), 'deepcopy/', case, ref, maps,
                          ctx, plain)


def plan(tier, seed):
    return tablecheck.plan(tier, seed, hyp_quick=(12, 150), hyp_thorough=(16, 1500), wide=True)


def run(task, ctx):
    tablecheck.run(task, ctx, check_one)


def replay(case, ctx):
    check_one(case, ctx, True)
