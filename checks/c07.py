"""C07 - join and meet are the least upper and greatest lower bounds."""

from vlib import gen, latcheck, lib, tablecheck
from vlib.latcheck import Built, pairs, multisets
from vlib.oracle import positions

PROPERTY = 'C07'
RULE = ('cases are (table, ordered pair of concepts): tables exhaustive n*m <= 12 (quick) / <= 16 (thorough) and '
        'Hypothesis fill families (<= 7x7, <= 10x10) x all ordered pairs (<= 40 concepts; 300 seed-derived pairs '
        'above) plus drawn multisets of 0-5 concepts with repeats passed as list and as generator, plus drawn '
        'triples for associativity. Oracle: lattice.join / lattice.meet return the member object that IS the least '
        'upper / greatest lower bound found by search among the brute-force concepts; join([]) is infimum, meet([]) '
        'is supremum; x.join(y), x | y, x.meet(y), x & y return the same objects; commutativity, associativity, '
        'idempotence, absorption and x <= y iff x | y is y iff x & y is x are asserted directly. A pair is '
        'non-trivial when the union of the two extents is not itself an extent (join strictly larger than union).')
ASSUMPTIONS = ['reference model vlib/oracle.py', 'bitsets package behaves as documented']


def check_one(case, ctx, deep):
    plain = lib.strip(case)
    rnd = gen._random.Random(repr((case['r'], ctx.seed)))
    for rep in range(3 if deep else 1):
        if rep != 1:   # rep 1 repeats every query on the SAME objects (answers may not depend on having been asked before)
            b = Built(case, ctx, plain)
        else:          # ... nor on what other contexts were created and asked in between
            lib.interfere(case)
        ref, lat, by = b.ref, b.lattice, b.by_idx
        cs = ref.concepts
        k = len(cs)
        ctx.check(ctx.call('join([])', plain, lat.join, []) is lat.infimum, 'join([])', plain, 'empty join is not the infimum')
        ctx.check(ctx.call('meet([])', plain, lat.meet, []) is lat.supremum, 'meet([])', plain, 'empty meet is not the supremum')
        for i, j in pairs(k, rnd):
            x, y = by[i], by[j]
            q = lambda: {'table': plain, 'pair': [list(positions(cs[i][0])), list(positions(cs[j][0]))]}
            union = cs[i][0] | cs[j][0]
            nt = union not in ref.index
            if rep == 0:
                ctx.case(q, nt, ('join_exceeds_union',) if nt else ('union_closed',))
            wj, wm = by[ref.join([i, j])], by[ref.meet([i, j])]
            for site, got in (('lattice.join', ctx.call('lattice.join', q, lat.join, [x, y])),
                              ('concept.join', ctx.call('concept.join', q, x.join, y)),
                              ('concept|', ctx.call('concept|', q, lambda: x | y)),
                              ('lattice.join(gen)', ctx.call('lattice.join(gen)', q, lat.join, (c for c in (y, x, y))))):
                ctx.check(got is wj, site, q, lambda: f'{site} of {x.extent} and {y.extent} = {got!r}, want {wj!r}')
            for site, got in (('lattice.meet', ctx.call('lattice.meet', q, lat.meet, [x, y])),
                              ('concept.meet', ctx.call('concept.meet', q, x.meet, y)),
                              ('concept&', ctx.call('concept&', q, lambda: x & y)),
                              ('lattice.meet(gen)', ctx.call('lattice.meet(gen)', q, lat.meet, (c for c in (y, x, y))))):
                ctx.check(got is wm, site, q, lambda: f'{site} of {x.extent} and {y.extent} = {got!r}, want {wm!r}')
            # laws, on the library's own results
            ctx.check((x | y) is (y | x) and (x & y) is (y & x), 'commutative', q, 'join/meet not commutative')
            ctx.check((x | (x & y)) is x and (x & (x | y)) is x, 'absorption', q, 'absorption fails')
            le = ref.leq(i, j)
            ctx.check(bool(x <= y) == le and ((x | y) is y) == le and ((x & y) is x) == le, 'order-consistency', q,
                      lambda: f'x <= y is {x <= y}, x|y is y: {(x | y) is y}, x&y is x: {(x & y) is x}, reference {le}')
            if i == j:
                ctx.check((x | x) is x and (x & x) is x, 'idempotent', q, 'x|x or x&x is not x')
        if rep == 0 and deep:
            # the same binary operations on concepts whose context and lattice objects were dropped by the caller
            orphan = latcheck.orphans(case, ctx, plain)
            for i, j in pairs(k, rnd, limit=12, sample=40) if orphan else ():
                x, y = orphan[i], orphan[j]
                q = lambda: {'table': plain, 'orphans': True, 'pair': [list(positions(cs[i][0])), list(positions(cs[j][0]))]}
                wj, wm = orphan[ref.join([i, j])], orphan[ref.meet([i, j])]
                for site, got, want in (('orphans/concept|', ctx.call('orphans/concept|', q, lambda: x | y), wj),
                                        ('orphans/concept.join', ctx.call('orphans/concept.join', q, x.join, y), wj),
                                        ('orphans/concept&', ctx.call('orphans/concept&', q, lambda: x & y), wm),
                                        ('orphans/concept.meet', ctx.call('orphans/concept.meet', q, x.meet, y), wm)):
                    ctx.check(got is want, site, q, lambda: f'{site} of {x.extent} and {y.extent} = {got!r}, want {want!r}')
        for _ in range(min(30, k * k)):
            h, i, j = (rnd.randrange(k) for _ in range(3))
            x, y, z = by[h], by[i], by[j]
            q = lambda: {'table': plain, 'triple': [list(positions(cs[t][0])) for t in (h, i, j)]}
            ctx.check(((x | y) | z) is (x | (y | z)) and ((x & y) & z) is (x & (y & z)), 'associative', q,
                      'join/meet not associative')
        for ms in multisets(k, rnd):
            q = lambda: {'table': plain, 'multiset': [list(positions(cs[t][0])) for t in ms]}
            if rep == 0:
                ctx.case(q, False, ('multiset',))
            if ms:
                wj, wm = by[ref.join(ms)], by[ref.meet(ms)]
            else:
                wj, wm = lat.infimum, lat.supremum
            got = ctx.call('lattice.join(multiset)', q, lat.join, [by[t] for t in ms])
            ctx.check(got is wj, 'lattice.join(multiset)', q, lambda: f'join = {got!r}, want {wj!r}')
            got = ctx.call('lattice.meet(multiset)', q, lat.meet, (by[t] for t in ms))
            ctx.check(got is wm, 'lattice.meet(multiset)', q, lambda: f'meet = {got!r}, want {wm!r}')


def big_boolean(ctx, n, seed):
    """Binary joins and meets in the Boolean lattice 2**n (closed form: union / intersection of extents), on pairs
    whose indexes lie on both sides of 2**16 and 2**17 - index arithmetic of a library has its thresholds there."""
    from vlib import bigcases
    case = bigcases.contranominal(n)
    plain = {'family': 'contranominal', 'n': n}
    ctx.case(plain, True, ['big-boolean'])
    maps = lib.Maps(case)
    context = ctx.call('Context()', plain, lib.context_of, case, False)
    lattice = ctx.call('context.lattice', plain, lambda: context.lattice)
    members = list(lattice)
    k = len(members)
    ctx.check(k == 1 << n, 'big/len', plain, lambda: f'{k} concepts, want {1 << n}')
    by_ext = {maps.omask(c.extent): c for c in members}
    rnd = gen._random.Random(repr(('big-boolean', n, seed)))
    special = [0, 1, 2, 3, k - 1, k - 2, k // 2, 65535, 65536, 65537, 65536 + 1, 65536 * 2 - 1] + \
              [rnd.randrange(k) for _ in range(40)]
    special = [i for i in special if 0 <= i < k]
    for i in special:
        for j in special:
            x, y = members[i], members[j]
            ex, ey = maps.omask(x.extent), maps.omask(y.extent)
            q = lambda: dict(plain, pair=[i, j])
            for site, fn, want in (('big/x|y', lambda: x | y, by_ext[ex | ey]), ('big/x&y', lambda: x & y, by_ext[ex & ey]),
                                   ('big/join', lambda: lattice.join([x, y]), by_ext[ex | ey]),
                                   ('big/meet', lambda: lattice.meet([x, y]), by_ext[ex & ey])):
                got = ctx.call(site, q, fn)
                ctx.check(got is want, site, q, lambda: f'{site} of members {i} and {j} is member {got.index}, want {want.index}')


def plan(tier, seed):
    tasks = tablecheck.plan(tier, seed, wide=True, quick_cells=12, thorough_cells=16, thorough_shapes=(), thorough_multisets=(),
                            hyp_quick=(12, 80), hyp_thorough=(16, 800))
    return ([{'kind': 'big-boolean', 'n': 17}] if tier == 'thorough' else []) + tasks


def run(task, ctx):
    if task['kind'] == 'big-boolean':
        ctx.guarded(big_boolean, ctx, task['n'], ctx.seed)
        return
    tablecheck.run(task, ctx, check_one)


def replay(case, ctx):
    check_one(case['table'] if 'table' in case else case, ctx, True)
