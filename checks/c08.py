"""C08 - order and logical-relation predicates on concepts match their extents."""

from vlib import gen, latcheck, lib, tablecheck
from vlib.latcheck import Built, pairs
from vlib.oracle import positions

PROPERTY = 'C08'
RULE = ('cases are (table, ordered pair of concepts, incl. x with itself): tables exhaustive n*m <= 12 (quick) / '
        '<= 16 (thorough) and Hypothesis fill families x all ordered pairs (<= 40 concepts; 300 seed-derived pairs '
        'above). Oracle: <= / implies, >= / subsumes, < / properly_implies, > / properly_subsumes against reference '
        'extent inclusion AND reverse intent inclusion; distinct concepts never mutually <=; incompatible_with, '
        'complement_of, subcontrary_with, orthogonal_to by truthiness against the set formulas of the property '
        'text evaluated on position sets. A pair is non-trivial when the two concepts are incomparable or one of '
        'them is a bottom concept with non-empty extent; pair classes are reported.')
ASSUMPTIONS = ['reference model vlib/oracle.py', 'bitsets package behaves as documented']


def check_one(case, ctx, deep):
    plain = lib.strip(case)
    rnd = gen._random.Random(repr((case['r'], ctx.seed)))
    for rep in range(3 if deep else 1):
        if rep != 1:   # rep 1 repeats every query on the SAME objects (answers may not depend on having been asked before)
            b = Built(case, ctx, plain)
        else:          # ... nor on what other contexts were created and asked in between
            lib.interfere(case)
        ref, by = b.ref, b.by_idx
        cs = ref.concepts
        k = len(cs)
        allobj = set(range(ref.n))
        passes = [('', by, pairs(k, rnd))]
        if rep == 0 and deep:
            # the same predicates on concepts whose context and lattice objects were dropped by the caller
            orphan = latcheck.orphans(case, ctx, plain)
            if orphan:
                passes.append(('orphans/', orphan, pairs(k, rnd, limit=12, sample=40)))
        for tag, objs, which in passes:
            for i, j in which:
                x, y = objs[i], objs[j]
                ex, ey = set(positions(cs[i][0])), set(positions(cs[j][0]))
                ix, iy = set(positions(cs[i][1])), set(positions(cs[j][1]))
                le, ge = ex <= ey, ex >= ey
                q = lambda: {'table': plain, 'pair': [sorted(ex), sorted(ey)], **({'orphans': True} if tag else {})}
                ctx.check((iy <= ix) == le and (ix <= iy) == ge, 'reference-duality', q, 'reference model inconsistent')
                if i == j:
                    cl = 'equal'
                elif le or ge:
                    cl = 'comparable'
                elif ex & ey:
                    cl = 'incomparable-overlap'
                else:
                    cl = 'incomparable-disjoint'
                classes = [cl]
                if ex | ey == allobj:
                    classes.append('covering')
                if not ex or not ey:
                    classes.append('empty-extent')
                bottom_nonempty = bool(cs[0][0]) and (i == 0 or j == 0)
                if bottom_nonempty:
                    classes.append('nonempty-bottom')
                if rep == 0 and not tag:
                    ctx.case(q, cl.startswith('incomparable') or bottom_nonempty, classes)
                want = {'<=': le, 'implies': le, '>=': ge, 'subsumes': ge,
                        '<': le and ex != ey, 'properly_implies': le and ex != ey,
                        '>': ge and ex != ey, 'properly_subsumes': ge and ex != ey,
                        'incompatible_with': not (ex & ey),
                        'complement_of': not (ex & ey) and (ex | ey) == allobj,
                        'subcontrary_with': bool(ex & ey) and (ex | ey) == allobj,
                        'orthogonal_to': bool(ex & ey) and not le and not ge and (ex | ey) != allobj}
                got = {'<=': lambda: x <= y, '>=': lambda: x >= y, '<': lambda: x < y, '>': lambda: x > y}
                for name in want:
                    fn = got.get(name) or (lambda name=name: getattr(x, name)(y))
                    res = ctx.call(tag + name, q, fn)
                    ctx.check(bool(res) == want[name], tag + name, q,
                              lambda: f'{x.extent} {name} {y.extent} gives {res!r}, want {want[name]}')
                if i != j:
                    ctx.check(not (x <= y and y <= x), 'antisymmetry', q, 'distinct concepts mutually <=')


def plan(tier, seed):
    return tablecheck.plan(tier, seed, wide=True, quick_cells=12, thorough_cells=16, thorough_shapes=(), thorough_multisets=(),
                           hyp_quick=(12, 100), hyp_thorough=(16, 1000))


def run(task, ctx):
    tablecheck.run(task, ctx, check_one)


def replay(case, ctx):
    check_one(case['table'] if 'table' in case else case, ctx, True)
