"""C09 - upset/downset traversals yield exactly the filters/ideals, once, in rank order."""

from vlib import bigcases, gen, latcheck, lib, tablecheck
from vlib.latcheck import Built, pairs, multisets
from vlib.oracle import positions

PROPERTY = 'C09'
RULE = ('cases are (table, seed collection): tables exhaustive n*m <= 12 (quick) / <= 16 (thorough) and Hypothesis '
        'fill families (diamond-rich: contranominal, interordinal, dense random) x every single concept, all ordered '
        'pairs (<= 25 concepts; 150 seed-derived pairs above), drawn multisets of 0-6 concepts with repeats and '
        'comparable members, and large collections (17, 24, k-1, k/2 distinct concepts; all but top and bottom), passed as list and as generator. Oracle: list(c.upset()) == reference {d >= c} sorted '
        'by index (exact list equality gives "once" and "rank order"); downset by dindex; upset_union(S) / '
        'downset_union(S) == sorted union of reference up/down-sets; empty S yields nothing. A seed collection is '
        'non-trivial when it has two comparable or repeated members, or is a single concept whose upset or downset '
        'contains a diamond (a member reachable along two different cover paths).')
ASSUMPTIONS = ['reference model vlib/oracle.py', 'bitsets package behaves as documented']


def has_diamond(ref, idxs, up=True):
    """Within the up-/down-set given by idxs some element has >= 2 covers inside the set."""
    upper, lower = ref.covers()
    s = set(idxs)
    cov = lower if up else upper
    return any(len([j for j in cov[i] if j in s]) >= 2 for i in s)


def check_one(case, ctx, deep):
    plain = lib.strip(case)
    rnd = gen._random.Random(repr((case['r'], ctx.seed)))
    for rep in range(3 if deep else 1):
        if rep != 1:   # rep 1 repeats every query on the SAME objects (answers may not depend on having been asked before)
            b = Built(case, ctx, plain)
        else:          # ... nor on what other contexts were created and asked in between
            lib.interfere(case)
        ref, lat, by = b.ref, b.lattice, b.by_idx
        cs = ref.concepts
        k = len(cs)
        dindex = ref.dindex()
        ups = [ref.upset(i) for i in range(k)]
        downs = [sorted(ref.downset(i), key=dindex.__getitem__) for i in range(k)]
        if rep == 0:
            # several live traversals of the same concept, BEFORE any complete one (nested loops over an upset are ordinary user code)
            for i in sorted({0, k - 1, k // 2, rnd.randrange(k)}):
                q = lambda: {'table': plain, 'seeds': [list(positions(cs[i][0]))], 'interleaved': True}
                for name, make, want in (('upset', by[i].upset, ups[i]), ('downset', by[i].downset, downs[i]),
                                         ('upset_union', lambda: lat.upset_union([by[i], by[0]]), sorted(set(ups[i]) | set(ups[0])))):
                    seqs = ctx.call(name + '/interleaved', q, latcheck.interleaved, make)
                    for which, seq in zip(('first of two alternating', 'second of two alternating', 'outer of nested', 'inner of nested'), seqs):
                        got = [b.idx(c) for c in seq]
                        ctx.check(got == want, name + '/interleaved', q,
                                  lambda: f'{name} as the {which} iterator(s) of one concept: indexes {got}, want {want}')
        for i in range(k):
            q = lambda: {'table': plain, 'seeds': [list(positions(cs[i][0]))]}
            nt = has_diamond(ref, ups[i], True) or has_diamond(ref, downs[i], False)
            if rep == 0:
                ctx.case(q, nt, ('single-diamond',) if nt else ('single',))
            got = [b.idx(c) for c in ctx.call('upset', q, lambda: list(by[i].upset()))]
            ctx.check(got == ups[i], 'upset', q, lambda: f'upset of {cs[i][0]:b}: indexes {got}, want {ups[i]}')
            got = [b.idx(c) for c in ctx.call('downset', q, lambda: list(by[i].downset()))]
            ctx.check(got == downs[i], 'downset', q, lambda: f'downset: indexes {got}, want {downs[i]} (dindex order)')
        seeds = [[i, j] for i, j in pairs(k, rnd, limit=25, sample=150)] + multisets(k, rnd, count=8, maxlen=6)
        if k >= 6:   # large collections too: many distinct seeds, comparable and incomparable ones mixed
            for size in (min(k, 17), min(k, 24), k - 1, k // 2 + 1):
                seeds.append(rnd.sample(range(k), size))
            seeds.append([i for i in range(k) if i not in (0, k - 1)])       # all but bottom and top
        for ms in seeds:
            q = lambda: {'table': plain, 'seeds': [list(positions(cs[t][0])) for t in ms]}
            comparable = any(a != b_ and (ref.leq(a, b_) or ref.leq(b_, a)) for a in ms for b_ in ms)
            nt = len(set(ms)) < len(ms) or comparable
            if rep == 0:
                ctx.case(q, nt, ('union-comparable-or-repeated',) if nt else ('union-antichain',))
            wu = sorted(set().union(*[ups[t] for t in ms])) if ms else []
            wd = sorted(set().union(*[downs[t] for t in ms]), key=dindex.__getitem__) if ms else []
            got = [b.idx(c) for c in ctx.call('upset_union', q, lambda: list(lat.upset_union([by[t] for t in ms])))]
            ctx.check(got == wu, 'upset_union', q, lambda: f'upset_union indexes {got}, want {wu}')
            got = [b.idx(c) for c in ctx.call('downset_union', q, lambda: list(lat.downset_union(by[t] for t in ms)))]
            ctx.check(got == wd, 'downset_union', q, lambda: f'downset_union indexes {got}, want {wd}')


def plan(tier, seed):
    return tablecheck.plan(tier, seed, wide=True, quick_cells=12, thorough_cells=16, thorough_shapes=(), thorough_multisets=(),
                           hyp_quick=(12, 80), hyp_thorough=(16, 800), fixed=('chain:400',))


def fixed_cases(name):
    # a chain of 400 concepts, traversed cold from both ends first (the interleaved pass comes before any complete one)
    kind, size = name.split(':')
    yield dict(bigcases.chain(int(size)), f='big-' + kind)


def run(task, ctx):
    tablecheck.run(task, ctx, check_one, fixed_cases=fixed_cases)


def replay(case, ctx):
    check_one(case['table'] if 'table' in case else case, ctx, True)
