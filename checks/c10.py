"""C10 - reduced labelling: every object and property labels exactly its own concept."""

from vlib import gen, lib, tablecheck
from vlib.latcheck import Built
from vlib.oracle import positions

PROPERTY = 'C10'
RULE = ('cases are context tables (plus Hypothesis tables wider than a machine word: 1-6 x 60-320 and transposed): exhaustive n*m <= 12 (quick) / <= 16 + 4x5, 5x4 + multisets (thorough) and '
        'Hypothesis fill families (duplicate rows/columns, full rows, empty and full columns are explicit '
        'perturbations) x all concepts. Oracle: concept.objects of concept k == the objects whose reference object '
        'concept (o\'\', o\') is k, in context order (so each object labels exactly one concept), likewise '
        'concept.properties with the attribute concept (p\', p\'\'); extent == union of object labels over the '
        'reference downset, intent == union of property labels over the reference upset; concept.atoms == the '
        'lattice atoms <= it in atom order; str(concept) == the documented rendering built from reference labels and '
        'str(lattice) == repr line + those lines; labels and atoms are checked again on the lattice reloaded by '
        'fromdict(todict()) and by pickle. A table is non-trivial when some concept carries >= 2 labels of one '
        'kind, or the top or bottom concept carries a label.')
ASSUMPTIONS = ['reference model vlib/oracle.py', 'bitsets package behaves as documented']


def check_one(case, ctx, deep):
    plain = lib.strip(case)
    for rep in range(3 if deep else 1):
        if rep != 1:   # rep 1 repeats every query on the SAME objects (answers may not depend on having been asked before)
            b = Built(case, ctx, plain)
        else:          # ... nor on what other contexts were created and asked in between
            lib.interfere(case)
        ref, lat, by, maps = b.ref, b.lattice, b.by_idx, b.maps
        cs = ref.concepts
        k = len(cs)
        objs_at, props_at = ref.labels()
        upper, _ = ref.covers()
        if rep == 0:
            multi = any(len(v) >= 2 for v in objs_at.values()) or any(len(v) >= 2 for v in props_at.values())
            ends = 0 in objs_at or 0 in props_at or (k - 1) in objs_at or (k - 1) in props_at
            classes = lib.table_classes(case) + [lib.size_bucket(k)]
            if multi:
                classes.append('multi-label')
            if ends:
                classes.append('label-on-top-or-bottom')
            ctx.case(plain, multi or ends, classes)
        atom_idx = [b.idx(a) for a in lat.atoms]
        ctx.check(sorted(atom_idx) == sorted(upper[0]), 'lattice.atoms', plain, 'atoms are not the upper covers of the infimum')
        lines = []
        for i in range(k):
            c = by[i]
            wo = tuple(case['o'][t] for t in objs_at.get(i, ()))
            wp = tuple(case['p'][t] for t in props_at.get(i, ()))
            ctx.check(tuple(c.objects) == wo, 'objects-label', plain,
                      lambda: f'concept {c.extent}: objects label {c.objects!r}, want {wo!r}')
            ctx.check(tuple(c.properties) == wp, 'properties-label', plain,
                      lambda: f'concept {c.extent}: properties label {c.properties!r}, want {wp!r}')
            down = ref.downset(i)
            up = ref.upset(i)
            eo = sorted(t for d in down for t in objs_at.get(d, ()))
            ip = sorted(t for u in up for t in props_at.get(u, ()))
            ctx.check(tuple(case['o'][t] for t in eo) == c.extent, 'extent-from-labels', plain,
                      lambda: f'extent {c.extent} != union of object labels in its downset')
            ctx.check(tuple(case['p'][t] for t in ip) == c.intent, 'intent-from-labels', plain,
                      lambda: f'intent {c.intent} != union of property labels in its upset')
            wa = [a for a in atom_idx if ref.leq(a, i)]
            ga = [b.idx(a) for a in c.atoms]
            ctx.check(ga == wa, 'concept.atoms', plain, lambda: f'concept {c.extent}: atoms {ga}, want {wa}')
            line = '{%s} <-> [%s]' % (', '.join(maps.olabels(cs[i][0])), ' '.join(maps.plabels(cs[i][1])))
            if wo:
                line += ' <=> ' + ' '.join(wo)
            if wp:
                line += ' <=> ' + ' '.join(wp)
            got = ctx.call('str(concept)', plain, str, c)
            ctx.check(got == line, 'str(concept)', plain, lambda: f'str = {got!r}, want {line!r}')
            lines.append('    ' + line)
        # every object / property exactly once over all labels
        all_o = [o for c in by for o in c.objects]
        all_p = [p for c in by for p in c.properties]
        ctx.check(sorted(all_o) == sorted(case['o']) and sorted(all_p) == sorted(case['p']), 'label-once', plain,
                  'some object/property labels zero or several concepts')
        text = ctx.call('str(lattice)', plain, str, lat)
        ctx.check(text == repr(lat) + '\n' + '\n'.join(lines), 'str(lattice)', plain, lambda: f'str(lattice) = {text!r}')
        # the same labelling must hold on lattices rebuilt from a serialisation (they are annotated on load)
        import concepts
        import pickle
        d = ctx.call('todict', plain, b.context.todict)
        reloaded = [('fromdict', ctx.call('fromdict', plain, concepts.Context.fromdict, d).lattice),
                    ('pickle', ctx.call('pickle', plain, lambda: pickle.loads(pickle.dumps(lat))))]
        for tag, lat2 in reloaded:
            for i, c2 in enumerate(lat2):
                wo = tuple(case['o'][t] for t in objs_at.get(i, ()))
                wp = tuple(case['p'][t] for t in props_at.get(i, ()))
                ctx.check(c2.extent == by[i].extent and tuple(c2.objects) == wo and tuple(c2.properties) == wp
                          and [a.index for a in c2.atoms] == [a.index for a in by[i].atoms], tag + '/labels', plain,
                          lambda: f'{tag}: concept {c2.extent}: labels {c2.objects!r} / {c2.properties!r}, want {wo!r} / {wp!r}')
        ctx.call('repr(lattice)', plain, repr, lat)   # must be defined; its wording is not part of the statement


def big_boolean(ctx, n):
    """The Boolean lattice 2**n (contranominal scale) against its closed form: every subset S of objects is an extent
    with intent {p_j : j not in S}; the object o_i labels the atom {o_i}, the property p_j the coatom without o_j;
    concept.atoms are the singletons of S in object order."""
    from vlib import bigcases
    case = bigcases.contranominal(n)
    plain = {'family': 'contranominal', 'n': n}
    ctx.case(plain, True, ['big-boolean'])
    maps = lib.Maps(case)
    context = ctx.call('Context()', plain, lib.context_of, case, False)
    lattice = ctx.call('context.lattice', plain, lambda: context.lattice)
    ctx.check(len(lattice) == 1 << n, 'big/len', plain, lambda: f'{len(lattice)} concepts, want {1 << n}')
    full = (1 << n) - 1
    seen = set()
    atom_of = {}
    for c in lattice:
        S = maps.omask(c.extent)
        seen.add(S)
        ctx.check(maps.pmask(c.intent) == full ^ S, 'big/intent', plain, lambda: f'concept {c.extent}: intent {c.intent}')
        single = S and not S & (S - 1)
        co = (full ^ S) and not (full ^ S) & ((full ^ S) - 1)
        want_o = (case['o'][S.bit_length() - 1],) if single else ()
        want_p = (case['p'][(full ^ S).bit_length() - 1],) if co else ()
        ctx.check(tuple(c.objects) == want_o and tuple(c.properties) == want_p, 'big/labels', plain,
                  lambda: f'concept {c.extent}: labels {c.objects!r} / {c.properties!r}, want {want_o!r} / {want_p!r}')
        if single:
            atom_of[S] = c
    ctx.check(len(seen) == 1 << n, 'big/extents', plain, 'not every subset of objects is an extent exactly once')
    for c in lattice:
        S = maps.omask(c.extent)
        want = [atom_of[1 << i] for i in range(n) if S >> i & 1]
        got = list(c.atoms)
        ctx.check(len(got) == len(want) and all(a is b for a, b in zip(got, want)), 'big/atoms', plain,
                  lambda: f'concept {c.extent}: atoms {[a.extent for a in got]}, want the singletons of its extent')


def plan(tier, seed):
    tasks = tablecheck.plan(tier, seed, hyp_quick=(12, 200), hyp_thorough=(16, 2000), wide=True, odd=True)
    return [{'kind': 'big-boolean', 'n': 14 if tier == 'quick' else 15}] + tasks


def run(task, ctx):
    if task['kind'] == 'big-boolean':
        ctx.guarded(big_boolean, ctx, task['n'])
        return
    tablecheck.run(task, ctx, check_one)


def replay(case, ctx):
    check_one(case, ctx, True)
