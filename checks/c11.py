"""C11 - structured persistence reloads the same context and the same lattice."""

import base64
import io
import json
import os
import pathlib
import pickle
import shutil
import subprocess
import sys
import tempfile

from hypothesis import strategies as st

from vlib import fingerprint as fp
from vlib import gen, lib
from vlib.runner import REPO, VERIF, HarnessError

PROPERTY = 'C11'
RULE = ('cases are (table with labels over any printable text incl. \\n \\r \\t, persistence configuration): Hypothesis '
        'fill families (1 - ~300 concepts) plus fixed large members (contranominal scales n = 9..11 quick / ..12 '
        'thorough = 512..4096 concepts, chains of 400 / 1000) x {dict, dict through json.dumps/loads, tojson/fromjson '
        'to str path / pathlib.Path / file object with indent and sort_keys variants, python-literal string, '
        'python-literal file utf-8 / utf-16} x dump ignore_lattice {False, True, None before / after the lattice was '
        'touched} x load ignore_lattice x raw {False, True with seed-derived, independently chosen permutations of the '
        'lattice list (indexes remapped), of the neighbour index lists, of the extent / intent index lists and of '
        'the context rows} x pickles of Context and Lattice (every protocol 0..HIGHEST), '
        'loaded in-process and in fresh interpreters with other PYTHONHASHSEED values. '
        '(Pickles of individual Concept objects are not part of the property and are not generated.) Oracle: (a) todict() == the encoding computed from the reference model; (b) every loader returns a context '
        '== the original with identical triple, a lattice attached exactly when stored and not ignored, and the '
        'fingerprint of the loaded lattice (every public query: members, ranks, labels, atoms, neighbours, class, '
        'str, up/downsets, join/meet/lookups, DOT) == the fingerprint of the lattice recomputed from scratch; (c) the '
        'same comparison for unpickled objects in-process and across processes. Non-trivial: a lattice with >= 4 '
        'concepts stored with its lattice and reloaded through a non-identity path (text, raw permutation, or '
        'another process).')
ASSUMPTIONS = ['reference model vlib/oracle.py for todict(); loaded-vs-recomputed comparison uses only public queries',
               'another interpreter = another process of the same Python build']

LABEL = st.one_of(
    st.text(st.one_of(st.characters(whitelist_categories=('L', 'M', 'N', 'P', 'S', 'Zs')),
                      st.sampled_from(list('\n\r\t ,"\'|#\\'))), min_size=1, max_size=6),
    st.text(st.one_of(st.characters(whitelist_categories=('L', 'M', 'N', 'P', 'S', 'Zs')),
                      st.sampled_from(list('\n\r\t ,"\'|#\\'))), min_size=1, max_size=6),
    # whole labels that are words of the encodings themselves
    st.sampled_from(['lattice', 'objects', 'properties', 'context', "'lattice'", '"lattice"', 'None', 'True', 'null', 'true',
                     '{', '}', '(', ')', '[', ']', ',', ':', "'", '"', '0', '1', '(0,)', "{'lattice': []}"]))

PATHS = ['dict', 'json-text', 'tojson-path', 'tojson-pathlib', 'tojson-fileobj', 'literal-string',
         'literal-file-utf8', 'literal-file-utf16']


@st.composite
def cases(draw):
    case = draw(st.one_of(gen.tables('small'), gen.tables('small'), gen.tables('medium'), gen.wide_tables()))
    n, m = len(case['o']), len(case['p'])
    if draw(st.booleans()):
        names = draw(st.lists(LABEL, min_size=n + m, max_size=n + m, unique=True))
        case['o'], case['p'] = names[:n], names[n:]
    case['cfg'] = {'path': draw(st.sampled_from(PATHS)),
                   'dump_ignore': draw(st.sampled_from([False, True, None])),
                   'touched': draw(st.booleans()),
                   'load_ignore': draw(st.sampled_from([False, False, True])),
                   'raw': draw(st.booleans()),
                   'indent': draw(st.sampled_from([None, 2])),
                   'sort_keys': draw(st.booleans()),
                   'pickle': draw(st.sampled_from(['context', 'lattice', 'lattice', 'none']))}
    return case


class Work:
    def __enter__(self):
        base = os.path.join(VERIF, '.work')
        os.makedirs(base, exist_ok=True)
        self.dir = tempfile.mkdtemp(prefix='c11-', dir=base)
        return self

    def path(self, name):
        return os.path.join(self.dir, name)

    def __exit__(self, *exc):
        shutil.rmtree(self.dir, ignore_errors=True)


def permuted(d, rnd):
    """A raw=True-legal permutation of a serialisation (nested lists or tuples).

    Which of the four order-free parts are permuted is chosen independently (lattice list with remapped
    indexes, neighbour index lists, extent/intent index lists, context rows), at least one of them: a reload
    must not depend on, say, the concept list being out of order for the neighbour lists to be re-sorted.
    """
    out = dict(d)
    flags = [rnd.random() < .5 for _ in range(4)]
    if not any(flags):
        flags[rnd.randrange(4)] = True
    p_lattice, p_neighbours, p_members, p_rows = flags

    def sh(seq, on=True):
        seq = list(seq)
        if on:
            rnd.shuffle(seq)
        return seq
    out['context'] = [sh(r, p_rows) for r in d['context']]
    if 'lattice' in d:
        lat = d['lattice']
        perm = list(range(len(lat)))
        if p_lattice:
            rnd.shuffle(perm)
        newpos = {old: new for new, old in enumerate(perm)}
        out['lattice'] = [[sh(lat[old][0], p_members), sh(lat[old][1], p_members),
                           sh((newpos[u] for u in lat[old][2]), p_neighbours),
                           sh((newpos[l] for l in lat[old][3]), p_neighbours)] for old in perm]
    return out


def check_one(case, ctx, children=None):
    import concepts
    plain = lib.strip(case)
    cfg = case.get('cfg') or {'path': 'dict', 'dump_ignore': False, 'touched': True, 'load_ignore': False, 'raw': False,
                              'indent': None, 'sort_keys': True, 'pickle': 'lattice'}
    q = dict(plain, cfg=cfg)
    o, p = case['o'], case['p']
    bools = gen.bools_of(case)
    triple = (tuple(o), tuple(p), bools)
    rnd = gen._random.Random(repr((case['r'], ctx.seed)))
    context = ctx.call('Context()', q, concepts.Context, o, p, bools)
    fresh = ctx.call('Context()', q, concepts.Context, o, p, bools)
    expected = fp.lattice_fingerprint(ctx.call('lattice', q, lambda: fresh.lattice), 'c11')
    k = expected['len']

    path = cfg['path']
    literal = path.startswith('literal')
    if cfg['touched']:
        ctx.call('lattice', q, lambda: context.lattice)
    dump_ignore = None if literal else cfg['dump_ignore']
    stored = (dump_ignore is False) or (dump_ignore is None and cfg['touched'])
    loaded_expected = stored and not (cfg['load_ignore'] and not literal)
    nonidentity = path != 'dict' or cfg['raw']
    ctx.case(q, k >= 4 and stored and loaded_expected and nonidentity,
             ['path:' + path, 'stored' if stored else 'not-stored', 'raw' if cfg['raw'] else 'ordered',
              lib.size_bucket(k)])

    # (a) todict against the reference encoding
    first = ctx.call('todict', q, context.todict, dump_ignore)
    # the returned dict belongs to the caller: wreck it in place, then dump again (nothing may be shared)
    for key in ('context', 'lattice'):
        if isinstance(first.get(key), list):
            first[key].reverse()
            if first[key]:
                first[key].pop()
    first['objects'] = ()
    d = ctx.call('todict', q, context.todict, dump_ignore)
    want = lib.reference_dict(case, with_lattice=stored)
    documented = {key: value for key, value in lib.listify(d).items() if key in ('objects', 'properties', 'context', 'lattice')}
    ctx.check(documented == want, 'todict', q, lambda: 'todict() differs from the reference encoding: '
              + str(fp.diff(documented, want)))
    ctx.check(('lattice' in d) == stored, 'todict/lattice-key', q, f'lattice key present: {"lattice" in d}, expected {stored}')

    def verify(site, loaded, expect_lattice):
        ctx.check(isinstance(loaded, concepts.Context) and loaded == context and
                  (loaded.objects, loaded.properties, loaded.bools) == triple, site + '/context', q,
                  lambda: f'{site}: reloaded context differs: {(loaded.objects, loaded.properties, loaded.bools)!r}')
        # whether the stored lattice was attached or recomputed is not observable through public queries: counted only
        if ('lattice' in getattr(loaded, '__dict__', {})) == expect_lattice:
            ctx.count('stored_lattice_attached_as_expected')
        else:
            ctx.count('stored_lattice_attachment_differs')
        got = fp.lattice_fingerprint(ctx.call(site + '/lattice', q, lambda: loaded.lattice), 'c11')
        ctx.check(got == expected, site + '/lattice', q,
                  lambda: f'{site}: reloaded lattice distinguishable from the recomputed one: {fp.diff(got, expected)}')

    with Work() as work:
        kw = {'ignore_lattice': cfg['load_ignore'], 'raw': cfg['raw']}
        if path == 'dict':
            src = permuted(d, rnd) if cfg['raw'] else d
            verify('fromdict', ctx.call('fromdict', q, lambda: concepts.Context.fromdict(src, **kw)), loaded_expected)
        elif path == 'json-text':
            dd = json.loads(json.dumps(d))
            src = permuted(dd, rnd) if cfg['raw'] else dd
            verify('fromdict(json)', ctx.call('fromdict(json)', q, lambda: concepts.Context.fromdict(src, **kw)), loaded_expected)
        elif path.startswith('tojson'):
            fn = work.path('c.json')
            jkw = {'indent': cfg['indent'], 'sort_keys': cfg['sort_keys'], 'ignore_lattice': dump_ignore}
            if path == 'tojson-path':
                ctx.call('tojson(path)', q, lambda: context.tojson(fn, **jkw))
            elif path == 'tojson-pathlib':
                ctx.call('tojson(pathlib)', q, lambda: context.tojson(pathlib.Path(fn), **jkw))
            else:
                with open(fn, 'w', encoding='utf-8') as fh:
                    ctx.call('tojson(fileobj)', q, lambda: context.tojson(fh, **jkw))
            with open(fn, encoding='utf-8') as fh:
                text = fh.read()
            ctx.check(lib.listify(json.loads(text)) == want, 'tojson/content', q, 'JSON file content differs from the reference encoding')
            if cfg['raw']:
                with open(fn, 'w', encoding='utf-8') as fh:
                    json.dump(permuted(json.loads(text), rnd), fh)
            if path == 'tojson-path':
                loaded = ctx.call('fromjson(path)', q, lambda: concepts.Context.fromjson(fn, **kw))
            elif path == 'tojson-pathlib':
                loaded = ctx.call('fromjson(pathlib)', q, lambda: concepts.Context.fromjson(pathlib.Path(fn), **kw))
            else:
                with open(fn, encoding='utf-8') as fh:
                    loaded = ctx.call('fromjson(fileobj)', q, lambda: concepts.Context.fromjson(fh, **kw))
                verify('fromjson', loaded, loaded_expected)
                # "file-like object open for reading" also means binary streams (open(.., 'rb'), BytesIO, gzip.open)
                import io
                with open(fn, 'rb') as fh:
                    data = fh.read()
                    fh.seek(0)
                    loaded = ctx.call('fromjson(binary file)', q, lambda: concepts.Context.fromjson(fh, **kw))
                verify('fromjson(binary file)', loaded, loaded_expected)
                loaded = ctx.call('fromjson(BytesIO)', q, lambda: concepts.Context.fromjson(io.BytesIO(data), **kw))
            verify('fromjson', loaded, loaded_expected)
        elif path == 'literal-string':
            text = ctx.call('tostring(python-literal)', q, context.tostring, 'python-literal')
            import ast
            parsed = ctx.call('literal/parse', q, ast.literal_eval, text)
            ctx.check(lib.listify(parsed) == want, 'literal/content', q,
                      'python-literal text does not evaluate to the reference encoding')
            verify('fromstring(python-literal)', ctx.call('fromstring(python-literal)', q, concepts.Context.fromstring,
                                                           text, 'python-literal'), stored)
        else:
            enc = 'utf-8' if path.endswith('utf8') else 'utf-16'
            fn = work.path('c.py')
            ctx.call('tofile(python-literal)', q, context.tofile, fn, 'python-literal', enc)
            verify('fromfile(python-literal)', ctx.call('fromfile(python-literal)', q, concepts.Context.fromfile,
                                                         fn, 'python-literal', enc), stored)

    # (c) pickles, in-process; cross-process items are queued for the batch
    which = cfg['pickle']
    if which != 'none':
        lattice = context.lattice
        for proto in range(pickle.HIGHEST_PROTOCOL + 1):
            target = context if which == 'context' else lattice
            pb = ctx.call(f'pickle.dumps({which}, protocol={proto})', q, pickle.dumps, target, proto)
            back = ctx.call(f'pickle.loads({which}, protocol={proto})', q, pickle.loads, pb)
            got = fp.lattice_fingerprint(back.lattice if which == 'context' else back, 'c11') if k <= 64 else None
            ctx.check(got is None or got == expected, f'pickle({which})/protocol', q,
                      lambda: f'unpickled (protocol {proto}) differs: {fp.diff(got, expected)}')
        if which == 'context':
            blob = ctx.call('pickle.dumps(context)', q, pickle.dumps, context)
            back = ctx.call('pickle.loads(context)', q, pickle.loads, blob)
            verify('pickle(context)', back, False)
            item = {'kind': 'pickle-context', 'expect': {'context_triple': lib.listify(triple), 'lattice': expected}}
        elif which == 'lattice':
            blob = ctx.call('pickle.dumps(lattice)', q, pickle.dumps, lattice)
            back = ctx.call('pickle.loads(lattice)', q, pickle.loads, blob)
            got = fp.lattice_fingerprint(back, 'c11')
            ctx.check(got == expected, 'pickle(lattice)', q,
                      lambda: f'unpickled lattice distinguishable from the recomputed one: {fp.diff(got, expected)}')
            item = {'kind': 'pickle-lattice', 'expect': {'lattice': expected}}
        if children is not None:
            item.update(blob=base64.b64encode(blob).decode('ascii'), tag='c11', case=q)
            children.append(item)


def run_children(ctx, items, hashseeds):
    """One child launch per hash seed for the whole batch; compare fingerprints."""
    if not items:
        return
    with Work() as work:
        batch = work.path('batch.json')
        json.dump([{'kind': it['kind'], 'blob': it['blob'], 'tag': it['tag']} for it in items], open(batch, 'w'))
        for hs in hashseeds:
            out = work.path(f'out{hs}.json')
            env = dict(os.environ, PYTHONHASHSEED=str(hs), VERIF_REPO=REPO)
            p = subprocess.run([sys.executable, os.path.join(VERIF, 'vlib', 'child.py'), batch, out],
                               env=env, capture_output=True, text=True, timeout=3600)
            if p.returncode != 0 or not os.path.exists(out):
                raise HarnessError(f'child failed rc={p.returncode}: {p.stderr[-2000:]}')
            results = json.load(open(out))
            for it, res in zip(items, results):
                q = dict(it['case'], child_hashseed=hs, pickled=it['kind'])
                ctx.case(q, it['expect']['lattice']['len'] >= 4, ['cross-process', it['kind']])
                if 'error' in res:
                    ctx.fail('cross-process/' + it['kind'] + '/raises', q, 'child interpreter: ' + res['error'])
                got = res['ok']
                ctx.check(got['lattice'] == it['expect']['lattice'], 'cross-process/' + it['kind'] + '/lattice', q,
                          lambda: 'lattice unpickled in another interpreter differs: '
                                  + str(fp.diff(got['lattice'], it['expect']['lattice'])))
                if it['kind'] == 'pickle-context':
                    c = got['context']
                    ctx.check([c['objects'], c['properties'], c['bools']] == it['expect']['context_triple'],
                              'cross-process/context', q, 'context unpickled in another interpreter differs')
                if it['kind'] == 'pickle-concepts':
                    ctx.check(got['n_lattices'] == 1 and all(c['is_member'] for c in got['concepts'])
                              and [c['index'] for c in got['concepts']] == it['expect']['picks'],
                              'cross-process/concepts', q, f'concepts unpickled in another interpreter: {got["concepts"]!r}')


def big_cases(name):
    kind, n = name.split(':')
    n = int(n)
    if kind == 'contranominal':
        _, rows = gen.contranominal(n)
        m = n
    else:  # chain
        m, rows = gen.ordinal(n)
    case = gen.mk_case(gen.labels('o', gen.seeded_perm(n, 'big', n)), gen.labels('p', range(m)), rows)
    out = []
    configs = (('lattice', 'dict', False), ('lattice', 'json-text', True), ('context', 'tojson-path', False))
    for pk, path, raw in (configs[:1] if kind == 'chain' else configs):
        c = dict(case)
        c['cfg'] = {'path': path, 'dump_ignore': False, 'touched': True, 'load_ignore': False, 'raw': raw,
                    'indent': None, 'sort_keys': True, 'pickle': pk}
        out.append(c)
    return out


def hyp_task(task, ctx):
    children = []
    ctx.hypothesis(lambda case: check_one(case, ctx, children if len(children) < task['child_items'] else None),
                   cases(), task['examples'], task['seed'])
    if not ctx.violations:
        # items collected while generating (not while shrinking: no violation happened)
        run_children(ctx, children[:task['child_items']], task['hashseeds'])


def fixed_task(task, ctx):
    children = []
    for case in big_cases(task['name']):
        check_one(case, ctx, children)
    run_children(ctx, children, task['hashseeds'][:1])


def plan(tier, seed):
    tasks = []
    if tier == 'quick':
        fixed = ['contranominal:9', 'contranominal:10', 'contranominal:11', 'chain:400']
        shards, examples, items, seeds = 12, 60, 12, [1, 2]
    else:
        fixed = ['contranominal:9', 'contranominal:10', 'contranominal:11', 'contranominal:12', 'chain:400', 'chain:1000']
        shards, examples, items, seeds = 16, 800, 60, [1, 2, 3, 4]
    for f in fixed:
        tasks.append({'kind': 'fixed', 'name': f, 'hashseeds': seeds})
    for k in range(shards):
        tasks.append({'kind': 'hyp', 'examples': examples, 'seed': seed * 1000 + k, 'child_items': items, 'hashseeds': seeds})
    return tasks


def run(task, ctx):
    if task['kind'] == 'fixed':
        ctx.guarded(fixed_task, task, ctx)
    else:
        ctx.guarded(hyp_task, task, ctx)


def replay(case, ctx):
    children = []
    c = {k: v for k, v in case.items() if k not in ('child_hashseed', 'pickled')}
    if 'pickled' in case:
        c['cfg'] = dict(c['cfg'], pickle={'pickle-context': 'context', 'pickle-lattice': 'lattice',
                                          'pickle-concepts': 'concepts'}[case['pickled']])
    check_one(c, ctx, children)
    run_children(ctx, children, [case.get('child_hashseed', 1), 2])
