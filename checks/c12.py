"""C12 - text formats round-trip every representable context."""

import os
import shutil
import tempfile

from hypothesis import strategies as st

from vlib import gen, lib, textformats as tf
from vlib.runner import VERIF

PROPERTY = 'C12'
RULE = ('cases are (table, labels, format configuration): every fill of every table with n*m <= 9 (quick: <= 6) with '
        'fixed ASCII labels, and Hypothesis tables 1-5 x 1-5 (all-blank rows / columns, single row / column by '
        'construction) with labels drawn per format alphabet (table: categories L/M/N/P/S/Zs minus | and #, '
        's == s.strip(); cxt: same plus | and #; csv / python-literal: any such text plus \\n \\r \\t and leading / '
        'trailing blanks; weighted towards the delimiters of the other formats, digits, X, ., non-ASCII, inner '
        'blanks) x {string, file} x {utf-8, utf-16, latin-1 when encodable} x table indent 0-8 x csv {bools_as_int, '
        'excel / excel-tab / unix dialect, object_header} x suffix case for load(). Four independent sub-oracles: '
        '(1) round trip through tostring/fromstring, tofile/fromfile, load, load_csv, load_cxt, make_context, '
        'Definition.fromfile/tostring, and repeated tostring() calls on the same context object with other option '
        'values (indent, dialect, bools_as_int); (2) an independent reader written from the format description recovers the '
        'same objects, properties and cells from table, cxt, csv and wiki-table output; (3) text produced by an '
        'independent writer in layout variants the description allows loads as the same context; (4) FIMI rows and '
        'concept .dat files list exactly the true cells / members. Non-trivial: labels contain a delimiter of another '
        'format, non-ASCII or inner blanks, or the table has an all-blank row or column or a single row / column.')
ASSUMPTIONS = ['independent readers/writers in vlib/textformats.py follow the format descriptions in its docstring',
               'labels are restricted to what the property declares representable (DESIGN.md 5)']

DELIMS = list('|#,;"\'X.01B!-= \t') + ['ä', 'λ', '中', ' ', ' ']
BASE = st.characters(whitelist_categories=('L', 'M', 'N', 'P', 'S', 'Zs'))


def alphabet(exclude='', extra=''):
    pool = [c for c in DELIMS + list(extra) if c not in exclude and (c != '\t' or '\t' in extra)]
    chars = st.one_of(st.sampled_from(pool), st.sampled_from(list('abcxyz')),
                      BASE.filter(lambda c: c not in exclude))
    return chars


# whole labels that look like syntax of the formats (rules, cell symbols, keywords, numbers)
LOOKALIKES = ['---', '====', '-+-', ':---:', '--- ---', '=====', '-', '=', '+', 'X', 'x', '.', 'B', '0', '1', 'X X', 'X.X',
              'lattice', 'objects', 'properties', 'context', 'None', 'True', '3', '3 3']


def label_strategy(kind):
    if kind == 'table':
        text = st.text(alphabet(exclude='|#'), min_size=1, max_size=7).map(lambda s: s.strip() or 'x')
    elif kind == 'cxt':
        text = st.text(alphabet(), min_size=1, max_size=7).map(lambda s: s.strip() or 'x')
    elif kind == 'wiki':
        text = st.text(alphabet(exclude='|!'), min_size=1, max_size=7).map(lambda s: s.strip() or 'x')
    else:
        text = st.text(alphabet(extra='\n\r\t'), min_size=1, max_size=7)   # csv, python-literal
    return st.one_of(text, text, text, st.sampled_from(LOOKALIKES))


@st.composite
def cases(draw):
    n = draw(st.integers(1, 5))
    m = draw(st.integers(1, 5))
    rows = [draw(st.integers(0, (1 << m) - 1)) for _ in range(n)]
    pert = draw(st.sampled_from(['none', 'blankrow', 'blankcol', 'fullrow', 'lastcolblank', 'firstcolblank']))
    if pert == 'blankrow':
        rows[draw(st.integers(0, n - 1))] = 0
    elif pert == 'fullrow':
        rows[draw(st.integers(0, n - 1))] = (1 << m) - 1
    elif pert in ('blankcol', 'lastcolblank', 'firstcolblank'):
        j = {'lastcolblank': m - 1, 'firstcolblank': 0}.get(pert, draw(st.integers(0, m - 1)))
        rows = [r & ~(1 << j) for r in rows]
    fmt = draw(st.sampled_from(['table', 'cxt', 'csv', 'python-literal', 'wiki', 'index']))
    kind = {'python-literal': 'csv', 'index': 'cxt'}.get(fmt, fmt)
    names = draw(st.lists(label_strategy(kind), min_size=n + m, max_size=n + m, unique=True))
    cfg = {'encoding': draw(st.sampled_from(['utf-8', 'utf-16', 'latin-1'])),
           'indent': draw(st.integers(0, 8)),
           'bools_as_int': draw(st.booleans()),
           'dialect': draw(st.sampled_from(['excel', 'excel-tab', 'unix'])),
           'object_header': draw(st.sampled_from([None, 'obj', 'a,b'])),
           'sniff': draw(st.booleans()),
           'upper': draw(st.integers(0, 3))}
    return {'o': names[:n], 'p': names[n:], 'r': rows, 'fmt': fmt, 'cfg': cfg}


def encodable(case, enc):
    try:
        ''.join(case['o'] + case['p']).encode(enc)
        return True
    except UnicodeError:
        return False


def nontrivial(case):
    n, m, rows = len(case['o']), len(case['p']), case['r']
    names = case['o'] + case['p']
    text = ''.join(names)
    if any(c in text for c in '|#,;"\'.!\t\n\r') or not text.isascii():
        return True
    if any(any(ch.isspace() for ch in s) for s in names):
        return True
    if n == 1 or m == 1 or 0 in rows:
        return True
    union = 0
    for r in rows:
        union |= r
    return union != (1 << m) - 1


class Work:
    def __enter__(self):
        base = os.path.join(VERIF, '.work')
        os.makedirs(base, exist_ok=True)
        self.dir = tempfile.mkdtemp(prefix='c12-', dir=base)
        return self

    def path(self, name):
        return os.path.join(self.dir, name)

    def __exit__(self, *exc):
        shutil.rmtree(self.dir, ignore_errors=True)


def suffix_case(suffix, k):
    return [suffix, suffix.upper(), suffix.capitalize(), suffix[:2] + suffix[2:].upper()][k % 4]


def check_one(case, ctx, files=True):
    import concepts
    from concepts import formats
    o, p = list(case['o']), list(case['p'])
    bools = gen.bools_of(case)
    fmt = case.get('fmt', 'all')
    cfg = case.get('cfg') or {'encoding': 'utf-8', 'indent': 0, 'bools_as_int': False, 'dialect': 'excel',
                              'object_header': None, 'sniff': True, 'upper': 0}
    plain = {k: case[k] for k in ('o', 'p', 'r')}
    q = dict(plain, fmt=fmt, cfg=cfg)
    enc = cfg['encoding'] if encodable(case, cfg['encoding']) else 'utf-8'
    triple = (tuple(o), tuple(p), bools)
    classes = ['fmt:' + fmt, 'enc:' + enc] + (['nontrivial'] if nontrivial(case) else [])
    ctx.case(q, nontrivial(case), classes)
    context = ctx.call('Context()', q, concepts.Context, o, p, bools)

    def same(site, got):
        ctx.check(isinstance(got, concepts.Context) and got == context
                  and (got.objects, got.properties, got.bools) == triple, site, q,
                  lambda: f'{site}: got {(got.objects, got.properties, got.bools)!r}, want {triple!r}')

    def same_triple(site, got):
        got = (tuple(got[0]), tuple(got[1]), [tuple(r) for r in got[2]])
        ctx.check(got == triple, site, q, lambda: f'{site}: independent reader got {got!r}, want {triple!r}')

    with Work() as work:
        fmts = ['table', 'cxt', 'csv', 'python-literal', 'wiki', 'index'] if fmt == 'all' else [fmt]
        for f in fmts:
            if f == 'table':
                text = ctx.call('tostring(table)', q, context.tostring, 'table', indent=cfg['indent'])
                same('roundtrip/table', ctx.call('fromstring(table)', q, concepts.Context.fromstring, text, 'table'))
                same('roundtrip/make_context', ctx.call('make_context', q, concepts.make_context, text))
                same_triple('reader/table', ctx.call('read_table', q, tf.read_table, text))
                layout = tf.render_table(o, p, bools, cfg['indent'])
                ctx.check(text == layout.rstrip(), 'layout/table', q,
                          lambda: f'table text {text!r} is not the documented layout {layout!r}')
                # same object, same option name, other value (then the first value again)
                for ind in (cfg['indent'] + 3, cfg['indent']):
                    t2 = ctx.call('tostring(table, indent2)', q, context.tostring, 'table', indent=ind)
                    ctx.check(t2 == tf.render_table(o, p, bools, ind).rstrip(), 'layout/table-second-indent', q,
                              lambda: f'second tostring(indent={ind}) on the same context gives {t2!r}')
                ctx.check(ctx.call('Definition.tostring', q, lambda: concepts.Definition(o, p, bools).tostring()) ==
                          context.tostring(), 'definition-tostring/table', q, 'Definition and Context table strings differ')
                for style in ('docs', 'tight', 'comments'):
                    src = tf.write_table(o, p, bools, style)
                    same('writer/table-' + style, ctx.call('fromstring(writer table ' + style + ')', q,
                                                           concepts.Context.fromstring, src))
                if files:
                    path = work.path('t' + suffix_case('.txt', cfg['upper']))
                    ctx.call('tofile(table)', q, context.tofile, path, 'table', enc, indent=cfg['indent'])
                    same('roundtrip/table-file', ctx.call('fromfile(table)', q, concepts.Context.fromfile, path, 'table', enc))
                    same('roundtrip/load-table', ctx.call('load(table)', q, concepts.load, path, enc))
                    d = ctx.call('Definition.fromfile(table)', q, concepts.Definition.fromfile, path, 'table', enc)
                    ctx.check((d.objects, d.properties, d.bools) == triple, 'roundtrip/definition-fromfile-table', q,
                              lambda: f'Definition.fromfile gives {(d.objects, d.properties, d.bools)!r}')
            elif f == 'cxt':
                text = ctx.call('tostring(cxt)', q, context.tostring, 'cxt')
                same('roundtrip/cxt', ctx.call('fromstring(cxt)', q, concepts.Context.fromstring, text, 'cxt'))
                same_triple('reader/cxt', ctx.call('read_cxt', q, tf.read_cxt, text))
                ctx.check(text == tf.write_cxt(o, p, bools), 'layout/cxt', q,
                          lambda: f'cxt text {text!r} is not the canonical Burmeister layout')
                for fin in (True, False):
                    same('writer/cxt', ctx.call('fromstring(writer cxt)', q, concepts.Context.fromstring,
                                                tf.write_cxt(o, p, bools, fin), 'cxt'))
                if files:
                    path = work.path('c' + suffix_case('.cxt', cfg['upper']))
                    ctx.call('tofile(cxt)', q, context.tofile, path, 'cxt', enc)
                    same('roundtrip/cxt-file', ctx.call('fromfile(cxt)', q, concepts.Context.fromfile, path, 'cxt', enc))
                    same('roundtrip/load-cxt', ctx.call('load(cxt)', q, concepts.load, path, enc))
                    same('roundtrip/load_cxt', ctx.call('load_cxt', q, concepts.load_cxt, path, enc))
                    d = ctx.call('Definition.fromfile(cxt)', q, concepts.Definition.fromfile, path, 'cxt', enc)
                    ctx.check((d.objects, d.properties, d.bools) == triple and d.tostring('cxt') == text,
                              'roundtrip/definition-fromfile-cxt', q, lambda: f'Definition.fromfile(cxt) gives {tuple(d)!r}')
                    with open(path, encoding=enc) as fh:
                        same_triple('reader/cxt-file', ctx.call('read_cxt(file)', q, tf.read_cxt, fh.read()))
            elif f == 'csv':
                dialect = cfg['dialect']
                as_int = cfg['bools_as_int']
                kw = {'dialect': dialect, 'bools_as_int': as_int}
                if cfg['object_header'] is not None:
                    kw['object_header'] = cfg['object_header']
                text = ctx.call('tostring(csv)', q, lambda: context.tostring('csv', **kw))
                load_kw = {'dialect': dialect}
                if not cfg['sniff']:
                    load_kw['bools_as_int'] = as_int
                same('roundtrip/csv', ctx.call('fromstring(csv)', q, lambda: concepts.Context.fromstring(text, 'csv', **load_kw)))
                delim = '\t' if dialect == 'excel-tab' else ','
                hdr, ro, rp, rb = ctx.call('read_csv', q, tf.read_csv, text, delim)
                same_triple('reader/csv', (ro, rp, rb))
                ctx.check(hdr == (cfg['object_header'] or ''), 'reader/csv-object-header', q, lambda: f'object header {hdr!r}')
                # same object, other option values: every (dialect, bools_as_int) combination in turn
                for d2 in ('excel', 'excel-tab', 'unix'):
                    for int2 in (not as_int, as_int):
                        t2 = ctx.call('tostring(csv, second options)', q,
                                      lambda: context.tostring('csv', dialect=d2, bools_as_int=int2))
                        hdr2, ro2, rp2, rb2 = ctx.call('read_csv(second options)', q, tf.read_csv, t2,
                                                       '\t' if d2 == 'excel-tab' else ',')
                        same_triple('reader/csv-second-options', (ro2, rp2, rb2))
                        cells = {c for line in tf.parse_csv(t2, '\t' if d2 == 'excel-tab' else ',')[1:] for c in line[1:]}
                        ctx.check(cells <= ({'1', '0'} if int2 else {'X', ''}), 'layout/csv-second-options', q,
                                  lambda: f'tostring(csv, dialect={d2}, bools_as_int={int2}) on a reused context has cells {sorted(cells)}')
                        same('roundtrip/csv-second-options', ctx.call('fromstring(csv, second options)', q,
                             lambda: concepts.Context.fromstring(t2, 'csv', dialect=d2, bools_as_int=int2)))
                for quote_all in (False, True):
                    for eol in ('\r\n', '\n'):
                        src = tf.write_csv(o, p, bools, quote_all=quote_all, as_int=as_int, eol=eol)
                        same('writer/csv', ctx.call('fromstring(writer csv)', q, concepts.Context.fromstring, src, 'csv'))
                if files:
                    path = work.path('s' + suffix_case('.csv', cfg['upper']))
                    ctx.call('tofile(csv)', q, lambda: context.tofile(path, 'csv', enc, **kw))
                    same('roundtrip/csv-file', ctx.call('fromfile(csv)', q,
                                                        lambda: concepts.Context.fromfile(path, 'csv', enc, **load_kw)))
                    same('roundtrip/load_csv', ctx.call('load_csv', q, concepts.load_csv, path, dialect, enc))
                    d = ctx.call('Definition.fromfile(csv)', q, lambda: concepts.Definition.fromfile(path, 'csv', enc, **load_kw))
                    ctx.check((d.objects, d.properties, d.bools) == triple, 'roundtrip/definition-fromfile-csv', q,
                              lambda: f'Definition.fromfile(csv) gives {tuple(d)!r}')
                    if dialect == 'excel':
                        same('roundtrip/load-csv', ctx.call('load(csv)', q, concepts.load, path, enc))
                    with open(path, encoding=enc, newline='') as fh:
                        _, ro, rp, rb = ctx.call('read_csv(file)', q, tf.read_csv, fh.read(), delim)
                    same_triple('reader/csv-file', (ro, rp, rb))
                    wpath = work.path('w.csv')
                    with open(wpath, 'w', encoding=enc, newline='') as fh:
                        fh.write(tf.write_csv(o, p, bools, quote_all=True, as_int=as_int))
                    same('writer/csv-file', ctx.call('load_csv(writer)', q, concepts.load_csv, wpath, 'excel', enc))
            elif f == 'python-literal':
                text = ctx.call('tostring(python-literal)', q, context.tostring, 'python-literal')
                same('roundtrip/python-literal', ctx.call('fromstring(python-literal)', q,
                                                          concepts.Context.fromstring, text, 'python-literal'))
                if files:
                    path = work.path('p' + suffix_case('.py', cfg['upper']))
                    ctx.call('tofile(python-literal)', q, context.tofile, path, 'python-literal', enc)
                    same('roundtrip/python-literal-file', ctx.call('fromfile(python-literal)', q,
                                                               concepts.Context.fromfile, path, 'python-literal', enc))
                    same('roundtrip/load-py', ctx.call('load(py)', q, concepts.load, path, enc))
            elif f == 'wiki':
                text = ctx.call('tostring(wiki-table)', q, context.tostring, 'wiki-table')
                ok = not any(c in s for s in o + p for c in '|!\n\r') and all(s == s.strip() for s in o + p)
                if ok:
                    same_triple('reader/wiki-table', ctx.call('read_wikitable', q, tf.read_wikitable, text))
                ctx.check(text == context.tostring('wikitable'), 'wiki-alias', q, 'wikitable alias gives different text')
            if files and f in ('table', 'cxt', 'csv', 'python-literal'):
                # an explicitly given format wins over the file name: write and read under the suffix of ANOTHER format
                foreign = {'table': '.cxt', 'cxt': '.txt', 'csv': '.py', 'python-literal': '.csv'}[f]
                path = work.path('foreign-' + f.replace('-', '') + suffix_case(foreign, cfg['upper'] + 1))
                dump_kw = dict(kw) if f == 'csv' else ({'indent': cfg['indent']} if f == 'table' else {})
                read_kw = dict(load_kw) if f == 'csv' else {}
                ctx.call(f'tofile({f}, foreign suffix)', q, lambda: context.tofile(path, f, enc, **dump_kw))
                same('roundtrip/explicit-format-foreign-suffix',
                     ctx.call(f'fromfile({f}, foreign suffix)', q, lambda: concepts.Context.fromfile(path, f, enc, **read_kw)))
            if f == 'index':
                text = ctx.call('tostring(fimi)', q, context.tostring, 'fimi')
                want = [tuple(j for j, b in enumerate(row) if b) for row in bools]
                got = ctx.call('read_fimi', q, tf.read_fimi, text)
                ctx.check(got == want, 'fimi', q, lambda: f'fimi rows {got!r}, want {want!r}')
                if files:
                    from concepts import algorithms
                    cl = ctx.call('get_concepts', q, algorithms.get_concepts, context)
                    for extents in (False, True):
                        path = work.path(f'c{int(extents)}.dat')
                        ctx.call('ConceptList.tofile', q, lambda: cl.tofile(path, extents=extents))
                        want = [tuple(k for k, b in enumerate((c.extent if extents else c.intent).bools()) if b) for c in cl]
                        got = ctx.call('read_concepts_dat', q, lambda: list(formats.read_concepts_dat(path)))
                        ctx.check(got == want, 'concepts-dat/reload', q, lambda: f'{got!r} != {want!r}')
                        with open(path, encoding='ascii', newline='') as fh:
                            got = tf.read_fimi(fh.read())
                        ctx.check(got == want, 'concepts-dat/reader', q, lambda: f'{got!r} != {want!r}')
                        # members really are the concept's members (labels), not just indexes of something
                        names = o if extents else p
                        for c, idx in zip(cl, got):
                            ctx.check(tuple(names[k] for k in idx) == (c.objects if extents else c.properties),
                                      'concepts-dat/members', q, 'indexes do not denote the members')


def exhaustive_task(task, ctx):
    n, m = task['n'], task['m']
    o = ['obj %d' % i for i in range(n)]
    p = ['p%d' % j if j % 2 else 'prop-%d' % j for j in range(m)]
    for t in range(task['start'], task['stop']):
        case = gen.table_from_index(n, m, t, ctx.seed)
        case['o'], case['p'] = o, p
        check_one(case, ctx, files=(t % 16 == 0))


def plan(tier, seed):
    cells = 6 if tier == 'quick' else 9
    tasks = gen.exhaustive_blocks(cells, block=64)
    shards, examples = (14, 300) if tier == 'quick' else (16, 3000)
    for k in range(shards):
        tasks.append({'kind': 'hyp', 'examples': examples, 'seed': seed * 1000 + k})
    if tier == 'thorough':
        tasks += [{'kind': 'atheris', 'runs': 6000, 'seed': seed * 100 + k} for k in range(4)]
    return tasks


def run(task, ctx):
    if task['kind'] == 'exhaustive':
        ctx.guarded(exhaustive_task, task, ctx)
    elif task['kind'] == 'atheris':
        from vlib import runner
        ctx.guarded(runner.atheris_task, ctx, PROPERTY, task['runs'], task['seed'])
    else:
        ctx.hypothesis(lambda case: check_one(case, ctx), cases(), task['examples'], task['seed'])


def replay(case, ctx):
    check_one(case, ctx)
