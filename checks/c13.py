"""C13 - every edit history of a Definition matches the ordered-table model."""

import copy
import hashlib
import itertools

import hypothesis
from hypothesis import strategies as st
from hypothesis.stateful import RuleBasedStateMachine, rule, initialize, run_state_machine_as_test

from vlib import defmodel as dm
from vlib.runner import Violation

PROPERTY = 'C13'
RULE = ('cases are edit histories in an operation DSL (cell assignment, add/set/remove/rename/move of objects and '
        'properties, remove_empty_*, union_update / intersection_update with and without ignore_conflicts, |=, &=, also '
        'with the definition itself as operand, '
        'reads d[o, p] and d[0..2]). (1) Bounded exhaustive part: every visible definition over the name universe '
        '{a,b} x {x,y} and {a,b} x {a,y} (quick; 113 states each; the second uses one string on both axes) or '
        '{a,b,c} x {x,y}, {a,b} x {x,y,z} and {a,b,c} x {a,y} (thorough; 1160 states each) is '
        'built by an actual history, then EVERY operation instance over the universe is applied (argument lists = '
        'every ordered list without repeats plus lists with a repeat; every other-definition over the universe with '
        'and without ignore_conflicts; rename targets inside the universe incl. old == new; move indexes 0..len-1), '
        'and after every non-"other" first operation (and a seed-derived 1/8 resp. 1/32 of the others) a battery '
        'of probes is applied as a further step (every read d[o, p] / d[0..2]; per name one setitem, add_*, set_*, '
        'remove_*, rename_*, move_*; remove_empty_*), so residue of the first edit is exposed (probe steps are '
        'counted in evaluations but, to stay cheap, not in distinct_nontrivial). (2) Hypothesis '
        'RuleBasedStateMachine over 8+8 pool names plus fresh names, argument lists up to 5 with repeats, <= 50 '
        'steps, other-definitions drawn or snapshots of earlier states; a fork rule branches the history (copy, take with and without axes, transposed / inverted twice, union with the empty definition, | and & with itself, Definition(*d), deepcopy, pickle), parks one of the two equal definitions with the model and goes on editing the other - parked definitions must keep their triple. Oracle after every step: (objects, '
        'properties, bools), return value and outcome class equal the model; a call the model rejects raises and '
        'leaves the triple unchanged (a difference in private attributes is only counted: residue must show up in what later steps observe); d == Definition(*d) and bools is len(objects) x len(properties). '
        'A history is non-trivial when it has >= 3 mutating steps and contains a remove or rename followed later by '
        're-adding the same name, or a rejected call.')
ASSUMPTIONS = ['ordered-table model vlib/defmodel.py written from the property statement and the doctests']

UNIVERSES = {'quick': [(('a', 'b'), ('x', 'y')), (('a', 'b'), ('a', 'y'))],
             'thorough': [(('a', 'b', 'c'), ('x', 'y')), (('a', 'b'), ('x', 'y', 'z')), (('a', 'b', 'c'), ('a', 'y'))]}
# the universes with 'a' on both axes: a Definition (unlike a Context) may use one string as object AND property name


def arg_lists(names):
    out = dm.all_orderings(list(names))
    out += [[n, n] for n in names[:1]] + ([[names[0], names[1], names[0]]] if len(names) > 1 else [])
    return out


def core_ops(objs, props):
    ops = []
    for o in objs:
        for p in props:
            ops += [['setitem', o, p, True], ['setitem', o, p, False], ['getitem', o, p]]
    for o in objs:
        ops += [['remove_object', o]]
        ops += [['rename_object', o, n] for n in objs]
        ops += [['move_object', o, i] for i in range(len(objs))]
        ops += [[name, o, lst] for name in ('add_object', 'set_object') for lst in arg_lists(props)]
    for p in props:
        ops += [['remove_property', p]]
        ops += [['rename_property', p, n] for n in props]
        ops += [['move_property', p, i] for i in range(len(props))]
        ops += [[name, p, lst] for name in ('add_property', 'set_property') for lst in arg_lists(objs)]
    ops += [['remove_empty_objects'], ['remove_empty_properties'], ['getitem_int', 0], ['getitem_int', 1], ['getitem_int', 2]]
    ops += [['self_combine', 'ior'], ['self_combine', 'iand'], ['self_combine', 'union_update'],
            ['self_combine', 'intersection_update'], ['self_combine', 'intersection_update', True]]
    return ops


def probe_ops(objs, props):
    """Third-step probes: every read, and one mutator instance per name that re-adds / removes / renames it."""
    reads = [['getitem', o, p] for o in objs for p in props] + [['getitem_int', i] for i in range(3)]
    muts = []
    for o in objs:
        for p in props:
            muts.append(['setitem', o, p, True])
    for k, o in enumerate(objs):
        muts += [['add_object', o, []], ['remove_object', o], ['rename_object', o, objs[(k + 1) % len(objs)]],
                 ['set_object', o, list(props)], ['move_object', o, 0]]
    for k, p in enumerate(props):
        muts += [['add_property', p, []], ['remove_property', p], ['rename_property', p, props[(k + 1) % len(props)]],
                 ['set_property', p, list(objs)], ['move_property', p, 0]]
    muts += [['remove_empty_objects'], ['remove_empty_properties']]
    return reads, muts


def other_ops(objs, props):
    ops = []
    for other in dm.all_definitions(list(objs), list(props)):
        for name in ('union_update', 'intersection_update'):
            ops += [[name, other, False], [name, other, True]]
        ops += [['ior', other], ['iand', other]]
    return ops


def canonical_history(enc):
    o, p, rows = enc
    h = [['add_object', x, []] for x in o] + [['add_property', x, []] for x in p]
    h += [['setitem', o[i], p[j], True] for i in range(len(o)) for j in range(len(p)) if rows[i][j]]
    return h


def valid_for(op, model):
    """Move indexes only inside the current list (documented meaning 'is at index')."""
    if op[0] == 'move_object':
        return op[2] < max(1, len(model.objects))
    if op[0] == 'move_property':
        return op[2] < max(1, len(model.properties))
    return True


def classify(history, outcomes):
    """Non-triviality rule on a history (list of ops) with per-step outcome 'ok' / 'reject'."""
    mut = [op for op in history if op[0] in dm.MUTATORS]
    rejected = 'reject' in outcomes
    gone = set()
    readd = False
    for op in history:
        name = op[0]
        if name in ('remove_object', 'remove_property'):
            gone.add(op[1])
        elif name in ('rename_object', 'rename_property'):
            gone.add(op[1])
        elif name in ('remove_empty_objects', 'remove_empty_properties'):
            gone.add('*')
        elif name in ('setitem',):
            readd |= bool(gone & {op[1], op[2], }) or ('*' in gone)
        elif name in ('add_object', 'add_property', 'set_object', 'set_property'):
            readd |= bool(gone & ({op[1]} | set(op[2]))) or ('*' in gone)
        elif name in ('rename_object', 'rename_property'):
            readd |= op[2] in gone
        elif name in ('union_update', 'ior'):
            readd |= bool(gone)
    return len(mut) >= 3 and (readd or rejected)


FORKS = ['copy', 'take()', 'take(objects)', 'take(properties)', 'take(both)', 'transposed twice', 'inverted twice',
         'union with empty', 'Definition(*d)', 'copy.copy', 'copy.deepcopy', 'pickle', 'or', 'and']


def apply_fork(ctx, d, model, how, swap, parked, case):
    """Branch the history: derive an equal definition from ``d`` (copy, take, ...), park one of the two with the model
    and go on editing the other.  Returns the definition to go on with."""
    import concepts
    import copy
    import pickle
    objs, props = list(model.objects), list(model.properties)
    make = {'copy': d.copy, 'take()': d.take, 'take(objects)': lambda: d.take(objs),
            'take(properties)': lambda: d.take(properties=props), 'take(both)': lambda: d.take(objs, props),
            'transposed twice': lambda: d.transposed().transposed(), 'inverted twice': lambda: d.inverted().inverted(),
            'union with empty': lambda: d.union(concepts.Definition()), 'Definition(*d)': lambda: concepts.Definition(*d),
            'copy.copy': lambda: copy.copy(d), 'copy.deepcopy': lambda: copy.deepcopy(d),
            'pickle': lambda: pickle.loads(pickle.dumps(d)), 'or': lambda: d | d, 'and': lambda: d & d}[how]
    new = ctx.call('fork/' + how, case, make)
    ctx.check(dm.real_triple(new) == model.triple(), 'fork/' + how + '/triple', case,
              lambda: f'{how} of the definition reads {dm.real_triple(new)!r}, model {model.triple()!r}')
    # copy.copy is documented nowhere as independent: the copy is dropped, never edited next to its source
    keep, park = (d, new) if swap else (new, d)
    if how != 'copy.copy':
        parked.append((park, model.copy(), how))
        del parked[:-4]
    return keep


def check_parked(ctx, parked, op, case):
    """Definitions the history branched off from may never change by editing the branch that goes on."""
    for old, model, how in parked:
        ctx.check(dm.real_triple(old) == model.triple(), 'fork/' + how + '/parked-changed', case,
                  lambda: f'after {op!r} the definition parked at the {how} fork reads {dm.real_triple(old)!r}, '
                          f'its model {model.triple()!r}')


def run_history(ctx, history, record=True, classes=()):
    """Replay a whole history from the empty definition, checking every step."""
    import concepts
    d = concepts.Definition()
    model = dm.Model()
    outcomes = []
    parked = []
    case = lambda: {'history': history}
    for op in history:
        if op[0] == 'fork':
            d = apply_fork(ctx, d, model, op[1], op[2], parked, case)
            outcomes.append('fork')
            continue
        rej = _rejects(model, op)
        model = dm.step(ctx, d, model, op, case)
        check_parked(ctx, parked, op, case)
        outcomes.append('reject' if rej else 'ok')
    if record:
        ctx.case(case, classify(history, outcomes), classes)
    return d, model


def _rejects(model, op):
    try:
        model.copy().apply(op)
    except dm.Reject:
        return True
    return False


def bfs_task(task, ctx):
    import concepts
    objs, props = tuple(task['objs']), tuple(task['props'])
    states = dm.all_definitions(list(objs), list(props))[task['start']:task['stop']]
    cores = core_ops(objs, props)
    others = other_ops(objs, props)
    reads, muts = probe_ops(objs, props)
    frac = task['probe_fraction']
    n_states = n_trans = n_probe = 0
    for enc in states:
        hist = canonical_history(enc)
        d0, m0 = run_history(ctx, hist, record=False)
        ctx.check(dm.real_triple(dm.real_definition(enc)) == m0.triple(), 'constructor', {'history': hist},
                  'Definition(objects, properties, bools) differs from the same table built by edits')
        n_states += 1
        for first_ops, probe_all in ((cores, True), (others, False)):
            for k, op1 in enumerate(first_ops):
                if not valid_for(op1, m0):
                    continue
                h1 = hist + [op1]
                case1 = lambda: {'history': h1}
                d1 = copy.deepcopy(d0)
                rej1 = _rejects(m0, op1)
                m1 = dm.step(ctx, d1, m0, op1, case1)
                n_trans += 1
                ctx.case(case1, classify(h1, ['ok'] * len(hist) + ['reject' if rej1 else 'ok']),
                         ('bfs', 'rejected' if rej1 else 'accepted', op1[0]))
                if not probe_all:
                    hsh = hashlib.blake2b(repr((enc, k, ctx.seed)).encode(), digest_size=2).digest()
                    if int.from_bytes(hsh, 'big') % frac:
                        continue
                # reads act on d1 itself (a read must not change it: checked by step), mutators on copies
                for op2 in reads:
                    h2 = h1 + [op2]
                    dm.step(ctx, d1, m1, op2, lambda: {'history': h2})
                for op2 in muts:
                    if not valid_for(op2, m1):
                        continue
                    h2 = h1 + [op2]
                    d2 = copy.deepcopy(d1)
                    dm.step(ctx, d2, m1, op2, lambda: {'history': h2})
                n_trans += len(reads) + len(muts)
                n_probe += len(reads) + len(muts)
                ctx.evaluations += len(reads) + len(muts)
    ctx.count('states', n_states)
    ctx.count('transitions', n_trans)
    ctx.count('probe_steps', n_probe)


# ---------------------------------------------------------------------------
# Hypothesis state machine

POOL_O = [f'o{k}' for k in range(8)] + ['p0']       # 'p0', 'o0', 'o1' occur on both axes
POOL_P = [f'p{k}' for k in range(8)] + ['o0', 'o1']
FRESH = [f'n{k}' for k in range(6)]
onames = st.sampled_from(POOL_O + FRESH[:3])
pnames = st.sampled_from(POOL_P + FRESH[3:])
olists = st.lists(onames, max_size=5)
plists = st.lists(pnames, max_size=5)


@st.composite
def small_defs(draw):
    o = draw(st.lists(onames, max_size=3, unique=True))
    p = draw(st.lists(pnames, max_size=3, unique=True))
    rows = [[draw(st.integers(0, 1)) for _ in p] for _ in o]
    return [o, p, rows]


def make_machine(ctx):

    class DefinitionMachine(RuleBasedStateMachine):

        def __init__(self):
            super().__init__()
            import concepts
            self.d = concepts.Definition()
            self.model = dm.Model()
            self.history = []
            self.outcomes = []
            self.snapshots = []
            self.parked = []

        def do(self, op):
            self.history.append(op)
            hist = list(self.history)
            rej = _rejects(self.model, op)
            self.model = dm.step(ctx, self.d, self.model, op, lambda: {'history': hist})
            self.outcomes.append('reject' if rej else 'ok')
            check_parked(ctx, self.parked, op, lambda: {'history': hist})

        @rule(how=st.sampled_from(FORKS), swap=st.booleans())
        def fork(self, how, swap):
            self.history.append(['fork', how, swap])
            hist = list(self.history)
            self.d = apply_fork(ctx, self.d, self.model, how, swap, self.parked, lambda: {'history': hist})
            self.outcomes.append('fork')

        @initialize(enc=small_defs())
        def start(self, enc):
            # start from any definition: reached by a union with it
            self.do(['union_update', enc, False])

        @rule(o=onames, p=pnames, v=st.booleans())
        def setitem(self, o, p, v):
            self.do(['setitem', o, p, v])

        @rule(o=onames, p=pnames)
        def getitem(self, o, p):
            self.do(['getitem', o, p])

        @rule(i=st.integers(0, 2))
        def getitem_int(self, i):
            self.do(['getitem_int', i])

        @rule(name=st.sampled_from(['add_object', 'set_object']), o=onames, ps=plists)
        def add_set_object(self, name, o, ps):
            self.do([name, o, ps])

        @rule(name=st.sampled_from(['add_property', 'set_property']), p=pnames, os=olists)
        def add_set_property(self, name, p, os):
            self.do([name, p, os])

        @rule(data=st.data())
        def remove_object(self, data):
            o = data.draw(st.sampled_from(self.model.objects) if self.model.objects and data.draw(st.integers(0, 9)) else onames)
            self.do(['remove_object', o])

        @rule(data=st.data())
        def remove_property(self, data):
            p = data.draw(st.sampled_from(self.model.properties) if self.model.properties and data.draw(st.integers(0, 9)) else pnames)
            self.do(['remove_property', p])

        @rule(data=st.data(), new=onames)
        def rename_object(self, data, new):
            o = data.draw(st.sampled_from(self.model.objects) if self.model.objects and data.draw(st.integers(0, 9)) else onames)
            self.do(['rename_object', o, new])

        @rule(data=st.data(), new=pnames)
        def rename_property(self, data, new):
            p = data.draw(st.sampled_from(self.model.properties) if self.model.properties and data.draw(st.integers(0, 9)) else pnames)
            self.do(['rename_property', p, new])

        @rule(data=st.data())
        def move_object(self, data):
            if not self.model.objects:
                return
            o = data.draw(st.sampled_from(self.model.objects))
            self.do(['move_object', o, data.draw(st.integers(0, len(self.model.objects) - 1))])

        @rule(data=st.data())
        def move_property(self, data):
            if not self.model.properties:
                return
            p = data.draw(st.sampled_from(self.model.properties))
            self.do(['move_property', p, data.draw(st.integers(0, len(self.model.properties) - 1))])

        @rule(how=st.sampled_from(['ior', 'iand', 'union_update', 'intersection_update']))
        def combine_with_itself(self, how):
            self.do(['self_combine', how])

        @rule(which=st.sampled_from(['remove_empty_objects', 'remove_empty_properties']))
        def remove_empty(self, which):
            self.do([which])

        @rule(os=st.lists(onames, min_size=3, max_size=5, unique=True), ps=st.lists(pnames, min_size=3, max_size=5, unique=True),
              which=st.sampled_from(['remove_empty_objects', 'remove_empty_properties']))
        def sparse_then_remove_empty(self, os, ps, which):
            # many empty rows / columns at once, then their removal (empties may outnumber the rest)
            for o in os:
                self.do(['add_object', o, []])
            for p in ps:
                self.do(['add_property', p, []])
            self.do([which])

        @rule()
        def snapshot(self):
            self.snapshots.append(self.model.encode())

        @rule(data=st.data(), name=st.sampled_from(['union_update', 'intersection_update', 'ior', 'iand']),
              ic=st.booleans())
        def combine(self, data, name, ic):
            if self.snapshots and data.draw(st.booleans()):
                other = data.draw(st.sampled_from(self.snapshots))
            else:
                other = data.draw(small_defs())
            self.do([name, other] + ([ic] if name.endswith('update') else []))

        def teardown(self):
            hist = list(self.history)
            ctx.hyp_examples += 1
            ctx.case(lambda: {'history': hist}, classify(hist, self.outcomes),
                     ('machine', 'len>=20' if len(hist) >= 20 else 'len<20') + (('has-reject',) if 'reject' in self.outcomes else ()))

    return DefinitionMachine


def machine_task(task, ctx):
    from hypothesis import HealthCheck, Verbosity, settings
    machine = hypothesis.seed(task['seed'])(make_machine(ctx))
    last = {}
    try:
        run_state_machine_as_test(machine, settings=settings(
            max_examples=task['examples'], stateful_step_count=50, deadline=None, database=None,
            report_multiple_bugs=False, verbosity=Verbosity.quiet,
            suppress_health_check=list(HealthCheck)))
    except Violation as v:
        ctx.add_violation(v)


def plan(tier, seed):
    tasks = []
    frac = 8 if tier == 'quick' else 32
    for objs, props in UNIVERSES[tier]:
        total = len(dm.all_definitions(list(objs), list(props)))
        step = 4 if tier == 'quick' else 10
        for start in range(0, total, step):
            tasks.append({'kind': 'bfs', 'objs': objs, 'props': props, 'start': start, 'stop': min(total, start + step),
                          'probe_fraction': frac})
    shards, examples = (12, 40) if tier == 'quick' else (16, 600)
    for k in range(shards):
        tasks.append({'kind': 'machine', 'examples': examples, 'seed': seed * 1000 + k})
    return tasks


def run(task, ctx):
    if task['kind'] == 'bfs':
        ctx.guarded(bfs_task, task, ctx)
    else:
        ctx.guarded(machine_task, task, ctx)


def replay(case, ctx):
    run_history(ctx, case['history'])
    run_history(ctx, case['history'], record=False)
