"""C14 - derived definitions are correct and unaliased; Context <-> Definition are inverse."""

import copy
import fractions
import hashlib

import hypothesis
from hypothesis import strategies as st
from hypothesis.stateful import RuleBasedStateMachine, rule, initialize, invariant, run_state_machine_as_test

from vlib import defmodel as dm
from vlib import gen, lib
from vlib.runner import Violation

PROPERTY = 'C14'
RULE = ('cases are (source, other, derivation, follow-up edit, edited side). (a) Exhaustive: every source over '
        '{a,b} x {x,y} (113) x other over {b,c} x {y,z} (a seed-derived 8 in quick, all 113 in thorough; overlapping '
        'and disjoint names, conflicting and compatible cells) x every derivation {copy, union / | / '
        'ignore_conflicts, intersection / & / ignore_conflicts, ten take() variants (objects / properties / both / '
        'reorder / empty list / repeats / unknown names), transposed / -, inverted / ~, and the involutions} x 15 '
        'follow-up edits (one per mutator, built so that they change the edited side) applied to the source, the '
        'other or the result. (b) Hypothesis state machine with a pool of definitions each paired with its model: '
        'rules derive new members and mutate any member, invariant: every member equals its model. (c) Hypothesis '
        'tables for Context(*d).definition() == d, Context(*c.definition()) == c, equality of contexts iff triples '
        'equal (equal copy, one cell / one label / row order changed), shape / fill_ratio / tostring / crc32 '
        'agreement. Oracle: ordered-table model (cell-wise or/and, conflict => ValueError unless ignored, sub-table '
        'in original or requested order, unknown => KeyError, axes swapped, cells complemented); after an edit on '
        'one side the triple and hidden state of every other object are unchanged; shape, fill_ratio, table string and '
        'crc32 are read on the same object before and after every edit and must agree with the model and Context(*d). Non-trivial: a derivation with '
        'names shared between source and other followed by an edit that changes the edited side; for (c) a table '
        'with >= 2 objects and >= 2 properties.')
ASSUMPTIONS = ['ordered-table model vlib/defmodel.py']

SRC_UNIVERSE = (['a', 'b'], ['x', 'y'])
OTH_UNIVERSE = (['b', 'c'], ['y', 'z'])

TAKES = [(['a'], None, False), (None, ['y'], False), (['b', 'a'], ['y', 'x'], False), (['b', 'a'], ['y', 'x'], True),
         ([], None, False), ([], [], True), (['a', 'a'], None, False), (['b', 'a', 'b'], None, True),
         (['q'], None, False), (['a'], ['q', 'x'], False), (None, None, False), (None, ['y', 'x'], True),
         # a name of the OTHER axis is unknown on this one (the two name spaces are separate)
         (['x'], None, False), (['a', 'y'], None, True), (None, ['a'], False), (['a'], ['x', 'b'], True)]

DERIVATIONS = (['copy'], ['union', False], ['union', True], ['or'], ['intersection', False], ['intersection', True],
               ['and'], ['transposed'], ['neg'], ['inverted'], ['invert'], ['transposed2'], ['inverted2']) + \
    tuple(['take', o, p, r] for o, p, r in TAKES)


def model_derive(src, other, der):
    """Return the model of the derived definition or raise dm.Reject."""
    kind = der[0]
    m = src.copy()
    if kind == 'copy':
        return m
    if kind in ('union', 'or'):
        m.op_union_update(other.encode(), der[1] if kind == 'union' else False)
        return m
    if kind in ('intersection', 'and'):
        m.op_intersection_update(other.encode(), der[1] if kind == 'intersection' else False)
        return m
    if kind in ('transposed', 'neg'):
        t = dm.Model()
        t.objects, t.properties = list(src.properties), list(src.objects)
        t.cells = {(p, o) for o, p in src.cells}
        return t
    if kind in ('inverted', 'invert'):
        m.cells = {(o, p) for o in src.objects for p in src.properties} - src.cells
        return m
    if kind in ('transposed2', 'inverted2'):
        return m
    if kind == 'take':
        _, objects, properties, reorder = der
        unknown = [x for x in (objects or []) if x not in src.objects] + \
                  [x for x in (properties or []) if x not in src.properties]
        if unknown:
            raise dm.Reject('unknown name', 'KeyError')

        def pick(current, wanted):
            if wanted is None:
                return list(current)
            if reorder:
                out = []
                for x in wanted:
                    if x not in out:
                        out.append(x)
                return out
            return [x for x in current if x in wanted]
        m.objects = pick(src.objects, objects)
        m.properties = pick(src.properties, properties)
        m.cells = {(o, p) for o, p in src.cells if o in m.objects and p in m.properties}
        return m
    raise ValueError(kind)


def real_derive(d, other, der):
    kind = der[0]
    if kind == 'copy':
        return d.copy()
    if kind == 'union':
        return d.union(other, der[1])
    if kind == 'or':
        return d | other
    if kind == 'intersection':
        return d.intersection(other, der[1])
    if kind == 'and':
        return d & other
    if kind == 'transposed':
        return d.transposed()
    if kind == 'neg':
        return -d
    if kind == 'inverted':
        return d.inverted()
    if kind == 'invert':
        return ~d
    if kind == 'transposed2':
        return d.transposed().transposed()
    if kind == 'inverted2':
        return (~d).inverted()
    if kind == 'take':
        return d.take(der[1], der[2], reorder=der[3])
    raise ValueError(kind)


def edits_for(model, foreign_objects=(), foreign_properties=()):
    """Follow-up edits (one per mutator) that change a definition equal to ``model`` where possible."""
    o = model.objects
    p = model.properties
    out = []
    if o and p:
        out.append(['setitem', o[0], p[0], (o[0], p[0]) not in model.cells])
        full = all((o[0], q) in model.cells for q in p)
        out.append(['set_object', o[0], [] if full or len(p) == 0 else list(p)])
        out.append(['set_property', p[0], [] if any((x, p[0]) in model.cells for x in o) else list(o)])
        out.append(['intersection_update', [[o[0]], [p[0]], [[int((o[0], p[0]) in model.cells)]]], False])
    else:
        out.append(['setitem', 'a', 'x', True])
    out.append(['add_object', 'new', list(p[:1])])
    out.append(['add_property', 'newp', list(o[:1])])
    if o:
        out += [['remove_object', o[0]], ['rename_object', o[0], 'ren'], ['move_object', o[-1], 0]]
    if p:
        out += [['remove_property', p[0]], ['rename_property', p[0], 'renp'], ['move_property', p[-1], 0]]
    out += [['remove_empty_objects'], ['remove_empty_properties'], ['union_update', [['u'], ['v'], [[1]]], False]]
    # names the definition does not (any longer) have but one of its sources has: re-introducing them must work
    fo = [x for x in foreign_objects if x not in o][:2]
    fp_ = [x for x in foreign_properties if x not in p][:2]
    for x in fo:
        out.append(['add_object', x, list(p[:1])])
    for x in fp_:
        out.append(['add_property', x, list(o[:1])])
    if fo and fp_:
        out.append(['setitem', fo[0], fp_[0], True])
    elif fo and p:
        out.append(['setitem', fo[0], p[0], True])
    elif fp_ and o:
        out.append(['setitem', o[0], fp_[0], True])
    return out


def check_pair(ctx, src_enc, oth_enc, deep=False):
    src_m, oth_m = dm.Model.decode(src_enc), dm.Model.decode(oth_enc)
    shared = bool(set(src_m.objects) & set(oth_m.objects) or set(src_m.properties) & set(oth_m.properties))
    for der in DERIVATIONS:
        base = {'source': src_enc, 'other': oth_enc, 'derivation': der}
        src, oth = dm.real_definition(src_enc), dm.real_definition(oth_enc)
        try:
            want = model_derive(src_m, oth_m, der)
            rejected = None
        except dm.Reject as r:
            rejected = r
        try:
            res = real_derive(src, oth, der)
            raised = None
        except Exception as e:  # noqa: BLE001
            raised = e
        site = 'derive:' + der[0]
        ctx.case(base, False, ('derive', der[0], 'rejected' if rejected else 'ok'))
        # sources never change by deriving
        ctx.check(dm.real_triple(src) == src_m.triple() and dm.real_triple(oth) == oth_m.triple(), site + '/source-changed',
                  base, 'deriving changed the source or the other definition')
        if rejected is not None:
            ctx.check(raised is not None, site + '/accepted-invalid', base,
                      lambda: f'{der!r}: model rejects ({rejected.reason}) but a definition was returned: {res!r}')
            ctx.check(dm.is_exc(raised, rejected.exc), site + '/exception-class', base,
                      lambda: f'{der!r} raised {type(raised).__name__}, documented {rejected.exc}')
            continue
        if raised is not None:
            ctx.fail(site + '/raises:' + type(raised).__name__, base, f'{der!r} raised {type(raised).__name__}: {raised}')
        ctx.check(res is not src and res is not oth, site + '/not-new', base, 'result is one of its sources')
        dm.invariants(ctx, res, want, site, lambda: base, der)
        dm.context_agreement(ctx, res, want, site, lambda: base, der)   # first read (a cached value would be taken now)
        dm.context_agreement(ctx, src, src_m, site + '/source', lambda: base, der)
        # follow-up edits on each side
        objs = {'source': (src, src_m), 'other': (oth, oth_m), 'result': (res, want)}
        for side in ('source', 'other', 'result'):
            foreign_o = src_m.objects + oth_m.objects
            foreign_p = src_m.properties + oth_m.properties
            for edit in edits_for(objs[side][1], foreign_o, foreign_p):
                # deepcopy keeps sharing *between* the three only if copied together:
                s2, o2, r2 = copy.deepcopy((objs['source'][0], objs['other'][0], objs['result'][0]))
                trio = {'source': (s2, src_m), 'other': (o2, oth_m), 'result': (r2, want)}
                target, tm = trio[side]
                case = dict(base, edit=edit, side=side)
                before = {k: (dm.real_triple(v[0]), dm.internal(v[0])) for k, v in trio.items() if k != side}
                tm2 = dm.step(ctx, target, tm, edit, lambda: case, agreement=True)
                changed = tm2.triple() != tm.triple()
                uses_other = der[0] in ('union', 'or', 'intersection', 'and')
                ctx.case(case, changed and (shared or not uses_other) and (uses_other or side != 'other'),
                         ('edit', 'side:' + side, 'changed' if changed else 'unchanged'))
                for k, (t0, i0) in before.items():
                    ctx.check(dm.real_triple(trio[k][0]) == t0, f'alias/{der[0]}/{side}->{k}', case,
                              lambda: f'editing the {side} with {edit!r} changed the {k}: {dm.real_triple(trio[k][0])!r}')
                    ctx.check(dm.internal(trio[k][0]) == i0, f'alias-hidden/{der[0]}/{side}->{k}', case,
                              lambda: f'editing the {side} with {edit!r} changed hidden state of the {k}')


def exhaustive_task(task, ctx):
    sources = dm.all_definitions(*SRC_UNIVERSE)[task['start']:task['stop']]
    others = dm.all_definitions(*OTH_UNIVERSE)
    if task['others'] != 'all':
        rnd = gen._random.Random(repr(('c14', ctx.seed)))
        others = rnd.sample(others, task['others'])
    for s in sources:
        for o in others:
            check_pair(ctx, s, o)
    ctx.count('source_other_pairs', len(sources) * len(others))


# ---------------------------------------------------------------------------
# (b) pool machine

names_o = st.sampled_from(['a', 'b', 'c', 'd'])
names_p = st.sampled_from(['x', 'y', 'z', 'w'])


@st.composite
def small_defs(draw):
    o = draw(st.lists(names_o, max_size=3, unique=True))
    p = draw(st.lists(names_p, max_size=3, unique=True))
    return [o, p, [[draw(st.integers(0, 1)) for _ in p] for _ in o]]


def make_machine(ctx):

    class PoolMachine(RuleBasedStateMachine):

        def __init__(self):
            super().__init__()
            self.pool = []       # [real, model]
            self.log = []

        def case(self):
            log = list(self.log)
            return lambda: {'pool_history': log}

        @initialize(a=small_defs(), b=small_defs())
        def start(self, a, b):
            for enc in (a, b):
                self.pool.append([dm.real_definition(enc), dm.Model.decode(enc)])
                self.log.append(['new', enc])

        @rule(data=st.data(), der=st.sampled_from([d for d in DERIVATIONS if d[0] != 'take']))
        def derive(self, data, der):
            i = data.draw(st.integers(0, len(self.pool) - 1))
            j = data.draw(st.integers(0, len(self.pool) - 1))
            self.log.append(['derive', i, j, der])
            self._derive(i, j, der)

        @rule(data=st.data(), reorder=st.booleans())
        def take(self, data, reorder):
            i = data.draw(st.integers(0, len(self.pool) - 1))
            m = self.pool[i][1]
            objs = data.draw(st.one_of(st.none(), st.lists(st.sampled_from(m.objects + ['q'] + m.properties[:1]), max_size=4)))
            props = data.draw(st.one_of(st.none(), st.lists(st.sampled_from(m.properties + ['q'] + m.objects[:1]), max_size=4)))
            der = ['take', objs, props, reorder]
            self.log.append(['derive', i, i, der])
            self._derive(i, i, der)

        def _derive(self, i, j, der):
            (src, sm), (oth, om) = self.pool[i], self.pool[j]
            try:
                want = model_derive(sm, om, der)
            except dm.Reject as r:
                try:
                    real_derive(src, oth, der)
                except Exception as e:  # noqa: BLE001
                    ctx.check(dm.is_exc(e, r.exc), 'pool/exception-class', self.case(), f'{der!r}: {type(e).__name__}')
                    return
                ctx.fail('pool/accepted-invalid', self.case()(), f'{der!r} accepted although the model rejects ({r.reason})')
            res = ctx.call('pool/derive:' + der[0], self.case(), real_derive, src, oth, der)
            if len(self.pool) < 6:
                self.pool.append([res, want])
            else:
                self.pool[-1] = [res, want]
                self.log.append(['replace-last'])

        @rule(data=st.data())
        def edit(self, data):
            i = data.draw(st.integers(0, len(self.pool) - 1))
            d, m = self.pool[i]
            others_o = [x for _, mm in self.pool for x in mm.objects]
            others_p = [x for _, mm in self.pool for x in mm.properties]
            edit = data.draw(st.sampled_from(edits_for(m, others_o, others_p)))
            self.log.append(['edit', i, edit])
            self.pool[i][1] = dm.step(ctx, d, m, edit, self.case(), agreement=True)

        @invariant()
        def all_match(self):
            for k, (d, m) in enumerate(self.pool):
                ctx.check(dm.real_triple(d) == m.triple(), 'pool/member-differs', self.case(),
                          lambda: f'pool member {k} is {dm.real_triple(d)!r}, model {m.triple()!r}')
                dm.context_agreement(ctx, d, m, 'pool', self.case())

        def teardown(self):
            ctx.hyp_examples += 1
            n_edit = sum(1 for e in self.log if e[0] == 'edit')
            n_der = sum(1 for e in self.log if e[0] == 'derive')
            ctx.case(self.case(), n_edit >= 2 and n_der >= 2, ('pool-machine',))

    return PoolMachine


def machine_task(task, ctx):
    from hypothesis import HealthCheck, Verbosity, settings
    machine = hypothesis.seed(task['seed'])(make_machine(ctx))
    try:
        run_state_machine_as_test(machine, settings=settings(
            max_examples=task['examples'], stateful_step_count=30, deadline=None, database=None,
            report_multiple_bugs=False, verbosity=Verbosity.quiet, suppress_health_check=list(HealthCheck)))
    except Violation as v:
        ctx.add_violation(v)


def replay_pool(ctx, log):
    pool = []
    case = lambda: {'pool_history': log}
    for e in log:
        if e[0] == 'new':
            pool.append([dm.real_definition(e[1]), dm.Model.decode(e[1])])
        elif e[0] == 'derive':
            _, i, j, der = e
            (src, sm), (oth, om) = pool[i], pool[j]
            try:
                want = model_derive(sm, om, der)
            except dm.Reject as r:
                try:
                    real_derive(src, oth, der)
                except Exception as ex:  # noqa: BLE001
                    ctx.check(dm.is_exc(ex, r.exc), 'pool/exception-class', case, f'{der!r}: {type(ex).__name__}')
                    continue
                ctx.fail('pool/accepted-invalid', case(), f'{der!r} accepted')
            res = ctx.call('pool/derive:' + der[0], case, real_derive, src, oth, der)
            if len(pool) < 6:
                pool.append([res, want])
            else:
                pool[-1] = [res, want]
        elif e[0] == 'edit':
            _, i, edit = e
            pool[i][1] = dm.step(ctx, pool[i][0], pool[i][1], edit, case, agreement=True)
        for k, (d, m) in enumerate(pool):
            ctx.check(dm.real_triple(d) == m.triple(), 'pool/member-differs', case,
                      lambda: f'pool member {k} is {dm.real_triple(d)!r}, model {m.triple()!r}')
            dm.context_agreement(ctx, d, m, 'pool', case)


# ---------------------------------------------------------------------------
# (c) Context <-> Definition

def check_context(case, ctx):
    import concepts
    plain = lib.strip(case)
    o, p = case['o'], case['p']
    bools = gen.bools_of(case)
    n, m = len(o), len(p)
    ctx.case({'context': plain}, n >= 2 and m >= 2, ('context-definition',))
    q = lambda: {'context': plain}
    c = ctx.call('Context()', q, concepts.Context, o, p, bools)
    d = ctx.call('Definition()', q, concepts.Definition, o, p, bools)
    d2 = ctx.call('context.definition', q, c.definition)
    ctx.check(d2 == d and dm.real_triple(d2) == (tuple(o), tuple(p), bools), 'context.definition', q,
              lambda: f'Context(*d).definition() = {d2!r}')
    c2 = ctx.call('Context(*definition)', q, lambda: concepts.Context(*d2))
    ctx.check(c2 == c and not (c2 != c) and (c2.objects, c2.properties, c2.bools) == (c.objects, c.properties, c.bools),
              'Context(*c.definition())', q, 'Context(*c.definition()) != c')
    d2['zz-new', p[0]] = True       # the returned definition is independent of the context
    ctx.check(c.objects == tuple(o) and c.bools == bools, 'definition-aliases-context', q, 'editing the definition changed the context')
    ctx.check(c.shape == d.shape and tuple(c.shape) == (n, m), 'shape', q, lambda: f'shape {c.shape} vs {d.shape}')
    want_ratio = fractions.Fraction(sum(map(sum, bools)), n * m)
    ctx.check(c.fill_ratio == d.fill_ratio == want_ratio, 'fill_ratio', q, lambda: f'{c.fill_ratio} vs {d.fill_ratio} vs {want_ratio}')
    ctx.check(c.tostring() == d.tostring() == str(d), 'tostring', q, 'table strings differ')
    ctx.check(c.crc32() == d.crc32(), 'crc32', q, 'crc32 differs')
    import zlib
    text = c.tostring()
    for enc in ('utf-8', 'utf-16', 'latin-1', 'cp1252'):
        try:
            want = format(zlib.crc32(text.encode(enc)) & 0xffffffff, 'x')
        except UnicodeError:
            continue
        got = (ctx.call('Context.crc32(encoding)', q, c.crc32, enc), ctx.call('Definition.crc32(encoding)', q, lambda: d.crc32(encoding=enc)))
        ctx.check(got == (want, want), 'crc32-encoding', q,
                  lambda: f'crc32 with encoding {enc}: context {got[0]}, definition {got[1]}, CRC32 of the encoded table string {want}')
    # equality iff triples equal
    rnd = gen._random.Random(repr((case['r'], ctx.seed)))
    variants = []
    i, j = rnd.randrange(n), rnd.randrange(m)
    flipped = [list(r) for r in bools]
    flipped[i][j] = not flipped[i][j]
    variants.append(('cell', o, p, [tuple(r) for r in flipped]))
    variants.append(('object-label', [x if k != i else 'renamed' for k, x in enumerate(o)], p, bools))
    variants.append(('property-label', o, [x if k != j else 'renamed' for k, x in enumerate(p)], bools))
    if n >= 2:
        perm = list(range(n))
        perm[0], perm[1] = perm[1], perm[0]
        variants.append(('row-order', [o[k] for k in perm], p, [bools[k] for k in perm]))
        variants.append(('row-cells-order', o, p, [bools[k] for k in perm]))
    if m >= 2:
        variants.append(('column-order', o, [p[1], p[0]] + list(p[2:]), [(r[1], r[0]) + tuple(r[2:]) for r in bools]))
    for tag, o2, p2, b2 in variants:
        other = concepts.Context(o2, p2, b2)
        same = (tuple(o2), tuple(p2), b2) == (tuple(o), tuple(p), bools)
        ctx.check((c == other) == same and (c != other) == (not same), 'context-eq/' + tag, q,
                  lambda: f'c == variant({tag}) is {c == other}, triples equal: {same}')
    ctx.check(c == concepts.Context(list(o), list(p), [list(r) for r in bools]), 'context-eq/equal', q, 'equal triples, unequal contexts')


@st.composite
def context_cases(draw):
    case = draw(gen.tables('small'))
    if draw(st.booleans()):   # labels with non-ASCII letters (encodings matter for crc32)
        n, m = len(case['o']), len(case['p'])
        alphabet = st.sampled_from(list('abcxyzäöüéñßøå€λжш 0123'))
        names = draw(st.lists(st.text(alphabet, min_size=1, max_size=5).map(lambda t: t.strip() or 'ä'),
                              min_size=n + m, max_size=n + m, unique=True))
        case['o'], case['p'] = names[:n], names[n:]
    return case


def plan(tier, seed):
    tasks = []
    total = len(dm.all_definitions(*SRC_UNIVERSE))
    step = 4 if tier == 'quick' else 2
    for start in range(0, total, step):
        tasks.append({'kind': 'exhaustive', 'start': start, 'stop': min(total, start + step),
                      'others': 8 if tier == 'quick' else 'all'})
    shards, examples = (8, 60) if tier == 'quick' else (16, 800)
    for k in range(shards):
        tasks.append({'kind': 'machine', 'examples': examples, 'seed': seed * 1000 + k})
    for k in range(4 if tier == 'quick' else 8):
        tasks.append({'kind': 'context', 'examples': 300 if tier == 'quick' else 3000, 'seed': seed * 1000 + 50 + k})
    return tasks


def run(task, ctx):
    if task['kind'] == 'exhaustive':
        ctx.guarded(exhaustive_task, task, ctx)
    elif task['kind'] == 'machine':
        ctx.guarded(machine_task, task, ctx)
    else:
        ctx.hypothesis(lambda case: check_context(case, ctx), context_cases(), task['examples'], task['seed'])


def replay(case, ctx):
    if 'pool_history' in case:
        replay_pool(ctx, case['pool_history'])
    elif 'context' in case:
        check_context(case['context'], ctx)
    else:
        check_pair(ctx, case['source'], case['other'])
