"""C15 - lattice structure is invariant under relabelling, duplication and transposition."""

from vlib import gen, lib, tablecheck

PROPERTY = 'C15'
RULE = ('cases are (table, transformation): tables exhaustive n*m <= 12 (quick) / <= 16 (thorough) and Hypothesis fill '
        'families up to 7x7 / 10x10; transformations: two seed-derived row+column permutations (labels move with the '
        'cells), transposition (built with Definition.transposed AND independently with zip(*rows)), a copy of every '
        'row in turn, a copy of every column in turn, an added all-true column. Purely metamorphic oracle, no '
        'reference model: as statements about label sets the concept set, cover pairs, join and meet of all pairs (lattice.join/meet and the binary x|y, x.join(y), x&y, x.meet(y) in both operand orders) '
        '(<= 30 concepts, 200 seed-derived pairs above) and relations() (symmetric kinds as unordered pairs) are equal '
        'under permutation; under transposition concepts are swapped pairs, covers reversed, join and meet exchanged; '
        'duplicated row => same family of intents, duplicated or universal column => same family of extents, same '
        'count; fast_generate_from and fcbo_dual are compared under the same transformations; finally the ORIGINAL '
        'context object is observed again and must answer as before the transformed copies were built. A case is non-trivial '
        'when the table has >= 4 concepts and the permuted cell matrix differs from the original one.')
ASSUMPTIONS = ['metamorphic relations only; no model of FCA is involved', 'bitsets package behaves as documented']

SYMMETRIC = {'equivalent', 'complement', 'incompatible', 'subcontrary', 'orthogonal'}


def observe(ctx, q, o, p, bools, tag, keep=None):
    """Label-level statements about the lattice of (o, p, bools)."""
    import concepts
    context = ctx.call(tag + 'Context()', q, concepts.Context, o, p, bools)
    if keep is not None:
        keep.append(context)
    return observe_context(ctx, q, context, tag)


def observe_context(ctx, q, context, tag):
    """The same statements for an existing context object (its cached lattice is reused)."""
    from concepts import algorithms
    o, p = context.objects, context.properties
    lat = ctx.call(tag + 'lattice', q, lambda: context.lattice)
    members = list(lat)
    fs = frozenset
    key = {id(c): (fs(c.extent), fs(c.intent)) for c in members}
    obs = {'concepts': {key[id(c)] for c in members},
           'n': len(members),
           'covers': {(key[id(c)], key[id(u)]) for c in members for u in c.upper_neighbors},
           'lower': {(key[id(l)], key[id(c)]) for c in members for l in c.lower_neighbors}}
    k = len(members)
    if k <= 30:
        idx = [(i, j) for i in range(k) for j in range(i, k)]
    else:
        rnd = gen._random.Random(repr((sorted(list(o) + list(p)), ctx.seed)))
        # pairs chosen by label content so that they coincide across transformations
        # order by the union of object and property labels: invariant under permutation AND transposition
        srt = sorted(members, key=lambda c: sorted(c.extent + c.intent))
        members = srt
        idx = [(rnd.randrange(k), rnd.randrange(k)) for _ in range(200)]
    obs['join'] = {(fs((key[id(members[i])], key[id(members[j])])), key[id(lat.join([members[i], members[j]]))]) for i, j in idx}
    obs['meet'] = {(fs((key[id(members[i])], key[id(members[j])])), key[id(lat.meet([members[i], members[j]]))]) for i, j in idx}
    # the binary forms, both operand orders (receiver classes differ: Infimum / Atom / Concept / Supremum)
    for i, j in idx:
        for a, b in ((members[i], members[j]), (members[j], members[i])):
            pair = fs((key[id(a)], key[id(b)]))
            obs['join'].add((pair, key[id(ctx.call(tag + 'x|y', q, lambda: a | b))]))
            obs['join'].add((pair, key[id(ctx.call(tag + 'x.join(y)', q, a.join, b))]))
            obs['meet'].add((pair, key[id(ctx.call(tag + 'x&y', q, lambda: a & b))]))
            obs['meet'].add((pair, key[id(ctx.call(tag + 'x.meet(y)', q, a.meet, b))]))
    rel = set()
    for r in ctx.call(tag + 'relations', q, context.relations):
        rel.add((r.kind, fs((r.left, r.right))) if r.kind in SYMMETRIC else (r.kind, r.left, r.right))
    obs['relations'] = rel
    obs['lookup'] = {(x, key[id(ctx.call(tag + 'lattice[]', q, lat.__getitem__, (x,)))]) for x in list(o) + list(p)}
    obs['fcbo'] = ctx.call(tag + 'fast_generate_from', q, lambda: sorted(
        (sorted(e.members()), sorted(i.members())) for e, i in algorithms.fast_generate_from(context)))
    obs['dual'] = ctx.call(tag + 'fcbo_dual', q, lambda: sorted(
        (sorted(e.members()), sorted(i.members())) for e, i in algorithms.fcbo_dual(context)))
    both = sorted((sorted(e), sorted(i)) for e, i in obs['concepts'])
    ctx.check(obs['fcbo'] == both and obs['dual'] == both, tag + 'generators-vs-lattice', q,
              'FCbO generators disagree with the lattice')
    return obs


def swap(pair):
    return (pair[1], pair[0])


def check_one(case, ctx, deep):
    import concepts
    plain = lib.strip(case)
    o, p = case['o'], case['p']
    n, m = len(o), len(p)
    bools = gen.bools_of(case)
    rnd = gen._random.Random(repr((case['r'], n, m, ctx.seed)))
    q = lambda: plain
    originals = []
    base = observe(ctx, q, o, p, bools, '', keep=originals)
    big = base['n'] >= 4
    recorded = False
    # -- permutations
    for t in range(2):
        rp = list(range(n))
        cp = list(range(m))
        rnd.shuffle(rp)
        rnd.shuffle(cp)
        o2 = [o[i] for i in rp]
        p2 = [p[j] for j in cp]
        b2 = [tuple(bools[i][j] for j in cp) for i in rp]
        qq = lambda: {'table': plain, 'transform': 'permute', 'rows': rp, 'cols': cp}
        changed = b2 != bools
        ctx.case(qq, big and changed, ('permute-changed',) if changed else ('permute-symmetric',))
        got = observe(ctx, qq, o2, p2, b2, 'permuted/')
        for what in ('concepts', 'covers', 'lower', 'join', 'meet', 'relations', 'fcbo', 'dual', 'lookup'):
            ctx.check(got[what] == base[what], 'permute/' + what, qq,
                      lambda: f'{what} changed under row/column permutation {rp} {cp}')
        if not deep and t == 0 and n * m > 6:
            break
    # -- transposition
    qq = lambda: {'table': plain, 'transform': 'transpose'}
    ctx.case(qq, big, ('transpose',))
    tb = [tuple(col) for col in zip(*bools)]
    got = observe(ctx, qq, p, o, tb, 'transposed/')
    d = ctx.call('Definition.transposed', qq, lambda: concepts.Definition(o, p, bools).transposed())
    ctx.check((list(d.objects), list(d.properties), d.bools) == (list(p), list(o), tb), 'transposed-definition', qq,
              'Definition.transposed differs from zip(*rows)')
    got2 = observe(ctx, qq, *d, 'transposed-def/')
    for g, tag in ((got, 'transpose/'), (got2, 'transpose-def/')):
        ctx.check(g['concepts'] == {swap(c) for c in base['concepts']}, tag + 'concepts', qq, 'dual concepts are not the swapped pairs')
        ctx.check(g['covers'] == {(swap(u), swap(c)) for c, u in base['covers']}, tag + 'covers', qq, 'covers not reversed')
        ctx.check(g['lower'] == {(swap(c), swap(l)) for l, c in base['lower']}, tag + 'lower', qq, 'lower links not reversed')
        fs = frozenset
        ctx.check(g['join'] == {(fs(swap(x) for x in pr), swap(r)) for pr, r in base['meet']}, tag + 'join', qq,
                  'join of the dual is not the meet of the original')
        ctx.check(g['meet'] == {(fs(swap(x) for x in pr), swap(r)) for pr, r in base['join']}, tag + 'meet', qq,
                  'meet of the dual is not the join of the original')
    # -- duplication
    intents = {c[1] for c in base['concepts']}
    extents = {c[0] for c in base['concepts']}
    rows_to_dup = range(n) if (n <= 3 or (deep and n <= 8)) else sorted({rnd.randrange(n) for _ in range(3 if deep else 1)})
    for i in rows_to_dup:
        qq = lambda: {'table': plain, 'transform': 'dup-row', 'row': i}
        ctx.case(qq, big, ('dup-row',))
        pos = rnd.randrange(n + 1)
        o2 = o[:pos] + ['dup'] + o[pos:]
        b2 = bools[:pos] + [bools[i]] + bools[pos:]
        got = observe(ctx, qq, o2, p, b2, 'dup-row/')
        ctx.check({c[1] for c in got['concepts']} == intents and got['n'] == base['n'], 'dup-row', qq,
                  lambda: f'copy of row {i} changed the family of intents or the count ({got["n"]} vs {base["n"]})')
    cols_to_dup = range(m) if (m <= 3 or (deep and m <= 8)) else sorted({rnd.randrange(m) for _ in range(3 if deep else 1)})
    for j in cols_to_dup:
        qq = lambda: {'table': plain, 'transform': 'dup-col', 'col': j}
        ctx.case(qq, big, ('dup-col',))
        pos = rnd.randrange(m + 1)
        p2 = p[:pos] + ['dup'] + p[pos:]
        b2 = [row[:pos] + (row[j],) + row[pos:] for row in bools]
        got = observe(ctx, qq, o, p2, b2, 'dup-col/')
        ctx.check({c[0] for c in got['concepts']} == extents and got['n'] == base['n'], 'dup-col', qq,
                  lambda: f'copy of column {j} changed the family of extents or the count')
    qq = lambda: {'table': plain, 'transform': 'full-col'}
    ctx.case(qq, big, ('full-col',))
    pos = rnd.randrange(m + 1)
    p2 = p[:pos] + ['all'] + p[pos:]
    b2 = [row[:pos] + (True,) + row[pos:] for row in bools]
    got = observe(ctx, qq, o, p2, b2, 'full-col/')
    ctx.check({c[0] for c in got['concepts']} == extents and got['n'] == base['n'], 'full-col', qq,
              'an all-true column changed the family of extents or the count')
    # -- the original context object, queried again after all the transformed ones were built
    again = observe_context(ctx, q, originals[0], 'original-again/')
    for what in base:
        ctx.check(again[what] == base[what], 'original-changed/' + what, q,
                  lambda: f'{what} of the ORIGINAL context changed after transformed copies (same labels on one side) were built')


def plan(tier, seed):
    return tablecheck.plan(tier, seed, quick_cells=10, thorough_cells=14, thorough_shapes=(), thorough_multisets=(),
                           hyp_quick=(14, 40), hyp_thorough=(16, 500), profiles=('small', (8, 8)), wide=True)


def run(task, ctx):
    tablecheck.run(task, ctx, check_one)


def replay(case, ctx):
    check_one(case['table'] if 'table' in case else case, ctx, True)
