"""C16 - relations() classifies each pair of contingent properties once and correctly."""

import itertools

from vlib import bigcases, gen, lib, tablecheck

PROPERTY = 'C16'
RULE = ('cases are context tables: exhaustive n*m <= 12 (quick) / <= 16 (thorough), Hypothesis fill families, and a '
        'dedicated strategy biased to 0, 1 or 2 contingent columns, equal / complementary columns and only-orthogonal '
        'pairs. Oracle built from the property text: one entry per unordered pair of contingent properties, kind from '
        'the set of occurring (left, right) truth combinations, implication oriented narrower -> wider, unary kinds '
        'with include_unary, stable sort by the documented rank (contradiction, tautology, contingency, equivalent, '
        'complement, incompatible, implication, subcontrary, orthogonal); compared as list of (kind, left, right). '
        'str(relations), relations.tostring() and str(entry) must return a str without raising for every context '
        '(the statement fixes no layout). A table is non-trivial when it has an '
        'orthogonal pair, a swapped implication (wider property first) or an empty result.')
ASSUMPTIONS = ['oracle restates the four-combination table of the property text', 'bitsets package behaves as documented']

RANK = {'contradiction': -2, 'tautology': -1, 'contingency': 0, 'equivalent': 1, 'complement': 2,
        'incompatible': 3, 'implication': 4, 'subcontrary': 6, 'orthogonal': 7}
# the documented order of the binary table: Equivalent 1, Complement 2, Incompatible 3, Implication 4
# (Replication 5 is folded into Implication 4), Subcontrary 6, Orthogonal 7; unary -2, -1, 0.


def expected(case, include_unary):
    p, rows = case['p'], case['r']
    n, m = len(case['o']), len(p)
    cols = [tuple(bool(rows[i] >> j & 1) for i in range(n)) for j in range(m)]
    entries = []
    flags = {'swapped': False, 'orthogonal': False}
    contingent = []
    for j, col in enumerate(cols):
        if all(col):
            kind = 'tautology'
        elif not any(col):
            kind = 'contradiction'
        else:
            kind = 'contingency'
            contingent.append(j)
        if include_unary:
            entries.append((kind, p[j], None))
    for a, b in itertools.combinations(contingent, 2):
        combos = set(zip(cols[a], cols[b]))
        tt, tf, ft, ff = ((True, True) in combos, (True, False) in combos,
                          (False, True) in combos, (False, False) in combos)
        left, right = p[a], p[b]
        if tt and not tf and not ft and ff:
            kind = 'equivalent'
        elif not tt and tf and ft and not ff:
            kind = 'complement'
        elif not tt and tf and ft and ff:
            kind = 'incompatible'
        elif tt and not tf and ft and ff:
            kind = 'implication'          # a narrower than b
        elif tt and tf and not ft and ff:
            kind = 'implication'          # b narrower than a: oriented narrower -> wider
            left, right = right, left
            flags['swapped'] = True
        elif tt and tf and ft and not ff:
            kind = 'subcontrary'
        elif tt and tf and ft and ff:
            kind = 'orthogonal'
            flags['orthogonal'] = True
        else:
            raise AssertionError(('impossible for contingent columns', combos))
        entries.append((kind, left, right))
    order = sorted(range(len(entries)), key=lambda t: RANK[entries[t][0]])  # sorted() is stable
    return [entries[t] for t in order], flags, len(contingent)


def check_one(case, ctx, deep):
    plain = lib.strip(case)
    want, flags, n_cont = expected(case, False)
    nt = flags['orthogonal'] or flags['swapped'] or not want
    classes = [f'contingent={min(n_cont, 3)}{"+" if n_cont > 3 else ""}']
    classes += [k for k, v in flags.items() if v] + (['empty-result'] if not want else [])
    ctx.case(plain, nt, classes)
    for rep_ in range(2 if deep else 1):
        if rep_:
            lib.interfere(case)   # other contexts created and queried in between (DESIGN.md 10.2)
        context = ctx.call('Context()', plain, lib.context_of, case)
        for unary in (False, True):
            want, _, _ = expected(case, unary)
            site = 'relations(unary)' if unary else 'relations'
            rel = ctx.call(site, plain, context.relations, include_unary=unary) if unary else \
                ctx.call(site, plain, context.relations)
            got = [(r.kind, r.left, r.right if r.__class__.binary else None) for r in rel]
            ctx.check(got == want, site, plain, lambda: f'{site} = {got!r}, want {want!r}')
            # the list handed out belongs to the caller: destroy it in place, ask the same context again
            ctx.call(site + '/wreck', plain, lib.wreck, rel)
            rel = ctx.call(site + '/again', plain, context.relations, include_unary=unary)
            got = [(r.kind, r.left, r.right if r.__class__.binary else None) if hasattr(r, 'kind') else repr(r) for r in rel]
            ctx.check(got == want, site + '/after-caller-edit', plain,
                      lambda: f'{site} after the caller modified the list returned before = {got!r}, want {want!r}')
            # printing must be *defined* (the statement fixes no layout: column widths, which rows are shown and the
            # wording of a line are the library's business - DESIGN.md 10.8)
            text = ctx.call(site + '/str', plain, str, rel)
            ctx.check(isinstance(text, str), site + '/str', plain, lambda: f'str({site}) = {text!r}')
            text = ctx.call(site + '/tostring', plain, rel.tostring)
            ctx.check(isinstance(text, str), site + '/tostring', plain, lambda: f'{site}.tostring() = {text!r}')
            for r in rel:
                text = ctx.call(site + '/entry-str', plain, str, r)
                ctx.check(isinstance(text, str), site + '/entry-str', plain, lambda: f'{text!r}')

from hypothesis import strategies as st


@st.composite
def biased_tables(draw):
    """Few contingent columns; equal, complementary and orthogonal column pairs by construction."""
    n = draw(st.integers(1, 6))
    full = (1 << n) - 1
    cols = []
    for _ in range(draw(st.integers(1, 6))):
        kind = draw(st.sampled_from(['full', 'empty', 'any', 'copy', 'complement', 'subset', 'any']))
        if kind == 'full':
            c = full
        elif kind == 'empty':
            c = 0
        elif kind == 'any' or not cols:
            c = draw(st.integers(0, full))
        elif kind == 'copy':
            c = draw(st.sampled_from(cols))
        elif kind == 'complement':
            c = full ^ draw(st.sampled_from(cols))
        else:
            c = draw(st.sampled_from(cols)) & draw(st.integers(0, full))
        cols.append(c)
    m = len(cols)
    rows = gen.transpose(m, n, cols)
    perm = draw(st.permutations(range(m)))
    case = gen.mk_case(gen.labels('o', range(n)), [f'p{k}' + 'x' * (k % 3) for k in perm], rows)
    case['f'] = 'c16-biased'
    return case


def plan(tier, seed):
    return tablecheck.plan(tier, seed, quick_cells=12, thorough_cells=16, thorough_shapes=(), thorough_multisets=(),
                           hyp_quick=(12, 300), hyp_thorough=(16, 3000), profiles=('small', 'biased', 'medium'), wide=True,
                           fixed=('tall:5000',))


def fixed_cases(name):
    # thousands of objects with complementary, subcontrary, implied and incompatible property pairs
    kind, size = name.split(':')
    yield dict(bigcases.tall_relations(int(size), 1), f='big-' + kind)
    yield dict(bigcases.tall_relations(4097, 2), f='big-' + kind)


def run(task, ctx):
    tablecheck.run(task, ctx, check_one, fixed_cases=fixed_cases,
                   strategy_of=lambda t: biased_tables() if t['profile'] == 'biased' else
                   gen.wide_tables() if t['profile'] == 'wide' else gen.tables(t['profile']))


def replay(case, ctx):
    check_one(case, ctx, True)
