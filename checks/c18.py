"""C18 - attributes() enumerates exactly the generating property sets, shortest first."""

from vlib import gen, latcheck, lib, tablecheck
from vlib.latcheck import Built
from vlib.oracle import positions

PROPERTY = 'C18'
RULE = ('cases are (table, concept): tables exhaustive n*m <= 12 (quick) / <= 16 (thorough) and Hypothesis fill '
        'families with <= 10 properties x every concept. Oracle: for a non-empty extent list(c.attributes()) == the '
        'brute-force list of subsets of the intent (by size, then by property positions) whose reference extension '
        'is the extent, each yielded set regenerates the very concept via lattice(...); for an empty extent the list '
        'is [intent]; infimum.minimal() == its intent; for every non-infimum concept minimal() == the first '
        'element (DESIGN.md 5: the infimum clause wins where the two clauses of the statement disagree). A (table, '
        'concept) case is non-trivial when the concept has >= 2 incomparable minimal generators or is a bottom '
        'concept with non-empty extent.')
ASSUMPTIONS = ['reference model vlib/oracle.py', 'bitsets package behaves as documented']


def check_one(case, ctx, deep):
    plain = lib.strip(case)
    for rep in range(3 if deep else 1):
        if rep != 1:   # rep 1 repeats every query on the SAME objects (answers may not depend on having been asked before)
            b = Built(case, ctx, plain)
        else:          # ... nor on what other contexts were created and asked in between
            lib.interfere(case)
        ref, lat, by, maps = b.ref, b.lattice, b.by_idx, b.maps
        cs = ref.concepts
        for i, (ext, intent) in enumerate(cs):
            c = by[i]
            q = lambda: {'table': plain, 'concept': list(positions(ext))}
            if bin(intent).count('1') > 10 and ext:
                continue   # 2**|intent| subsets per concept: 'intents of bounded size' (mid / wide tables)
            if ext:
                gens = ref.generators(i)
            else:
                gens = [positions(intent)]
            minimal = [g for g in gens if not any(set(h) < set(g) for h in gens)]
            nt = (ext and len(minimal) >= 2) or (i == 0 and ext != 0)
            if rep == 0:
                cl = ['empty-extent'] if not ext else []
                if len(minimal) >= 2:
                    cl.append('several-minimal-generators')
                if i == 0 and ext:
                    cl.append('nonempty-bottom')
                ctx.case(q, bool(nt), cl)
            want = [tuple(case['p'][j] for j in g) for g in gens]
            if rep == 0 and len(gens) >= 2 and i % 2 == 0:
                # several live enumerations of one concept BEFORE any complete one (nested loops over generating sets)
                seqs = ctx.call('attributes/interleaved', q, latcheck.interleaved, c.attributes)
                for which, seq in zip(('first of two alternating', 'second of two alternating', 'outer of nested', 'inner of nested'), seqs):
                    ctx.check(seq == want, 'attributes/interleaved', q,
                              lambda: f'attributes() as the {which} iterator(s) of {c.extent}: {seq!r}, want {want!r}')
            got = ctx.call('attributes', q, lambda: list(c.attributes()))
            ctx.check(got == want, 'attributes', q, lambda: f'attributes of {c.extent} = {got!r}, want {want!r}')
            if ext:
                for g in got[:20]:
                    ctx.check(ctx.call('lattice(generator)', q, lat, g) is c, 'regenerates', q,
                              lambda: f'lattice({g!r}) is not the concept {c.extent}')
            m = ctx.call('minimal', q, c.minimal)
            if i == 0:
                ctx.check(m == maps.plabels(intent), 'infimum.minimal', q,
                          lambda: f'infimum.minimal() = {m!r}, want the full intent')
            else:
                ctx.check(m == want[0], 'minimal', q, lambda: f'minimal() = {m!r}, want {want[0]!r}')


def plan(tier, seed):
    return tablecheck.plan(tier, seed, quick_cells=12, thorough_cells=16, thorough_shapes=(), thorough_multisets=(),
                           hyp_quick=(12, 100), hyp_thorough=(16, 1000), profiles=('small', (8, 10)))


def run(task, ctx):
    tablecheck.run(task, ctx, check_one)


def replay(case, ctx):
    check_one(case['table'] if 'table' in case else case, ctx, True)
