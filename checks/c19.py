"""C19 - ill-formed input raises ValueError; accepted input is represented faithfully."""

import copy
import itertools

from hypothesis import strategies as st

from vlib import gen, lib
from vlib.oracle import Ref

PROPERTY = 'C19'
RULE = ('cases are constructor inputs: (objects, properties, rows) triples and serialized dicts, obtained from valid '
        'ones by 0, 1 or 2 corruptions from a catalogue (drop / duplicate a name with and without keeping the table '
        'shape consistent, overlap a property with an object name (also with the empty string as the shared label; the '
        'empty string on one side only is valid), drop / add a row, shorten / extend one row incl. '
        'the ragged case whose length set still contains the right length, shorten / extend all rows, empty name '
        'lists; for dicts also delete a key, replace a name by int / None / bytes / tuple / list, column index == '
        'len(properties), -1, repeated index, lattice = [] / (), require_lattice without lattice, each also combined with '
        'ignore_lattice=True, extra keys, tuple '
        'vs list, unsorted rows). Systematic part: every table with n*m <= 6 (quick) / <= 9 (thorough) x every '
        'single corruption instance x every ordered pair of corruption kinds; Hypothesis part: fill families with '
        'cells drawn from truthy / falsy values of several types. Oracle: an independent predicate listing the broken '
        'rules of the property text; no broken rule <=> construction succeeds and objects / properties / bools '
        'reproduce the input (cells by truthiness); otherwise '
        'ValueError exactly and nothing is returned. Non-trivial: exactly one broken rule, or a valid input with '
        'non-bool cells / unsorted rows / extra keys / tuples.')
ASSUMPTIONS = ['validity predicate restates the rules in the property text', 'column indexes are ints, names are hashable']

TRUTHY = [True, 1, 'X', 2.5, [0], 'False']
FALSY = [False, 0, '', None, [], 0.0]
BAD_NAMES = ['$int', '$none', '$bytes', '$tuple', '$list']


def decode_name(x):
    return {'$int': 7, '$none': None, '$bytes': b'o0', '$tuple': ('o0',), '$list': ['o0']}.get(x, x) \
        if isinstance(x, str) else x


# ---------------------------------------------------------------------------
# independent rule predicate

def triple_rules(objects, properties, rows):
    broken = set()
    if not objects:
        broken.add('empty-objects')
    if not properties:
        broken.add('empty-properties')
    if len(set(objects)) != len(objects):
        broken.add('duplicate-objects')
    if len(set(properties)) != len(properties):
        broken.add('duplicate-properties')
    if set(objects) & set(properties):
        broken.add('overlap')
    if len(rows) != len(objects):
        broken.add('row-count')
    if any(len(r) != len(properties) for r in rows):
        broken.add('row-length')
    return broken


def dict_rules(d, require_lattice):
    broken = set()
    missing = [k for k in ('objects', 'properties', 'context') if k not in d]
    if missing:
        return {'missing-key'}
    objects = [decode_name(x) for x in d['objects']]
    properties = [decode_name(x) for x in d['properties']]
    if not all(isinstance(x, str) for x in objects) or not all(isinstance(x, str) for x in properties):
        return {'non-string-name'}
    if len(d['context']) != len(objects):
        broken.add('row-count')
    if require_lattice and 'lattice' not in d:
        broken.add('lattice-required')
    if d.get('lattice') is not None and len(d['lattice']) == 0:
        broken.add('empty-lattice')
    for row in d['context']:
        if len(set(row)) != len(row):
            broken.add('repeated-index')
        if any(i < 0 or i >= len(properties) for i in row):
            broken.add('index-range')
    broken |= triple_rules(objects, properties, []) - {'row-count', 'row-length'}
    return broken


# ---------------------------------------------------------------------------
# corruptions (return a new input or None when not applicable)

def corrupt_triple(t, kind, pos):
    o, p, rows = list(t['objects']), list(t['properties']), [list(r) for r in t['rows']]
    n, m = len(o), len(p)
    i = pos % n if n else 0
    j = pos % m if m else 0
    if kind in ('drop_object_keep_rows', 'drop_object_and_row') and n:
        del o[i]
        if kind.endswith('and_row') and len(rows) > i:
            del rows[i]
    elif kind in ('dup_object_keep_rows', 'dup_object_and_row') and n:
        k = (pos // 7) % (n + 1)
        o.insert(k, o[i])
        if kind.endswith('and_row') and rows:
            rows.insert(min(k, len(rows)), list(rows[i % len(rows)]))
    elif kind in ('drop_property_keep_cols', 'drop_property_and_col') and m:
        del p[j]
        if kind.endswith('and_col'):
            for r in rows:
                if len(r) > j:
                    del r[j]
    elif kind in ('dup_property_keep_cols', 'dup_property_and_col') and m:
        k = (pos // 7) % (m + 1)
        p.insert(k, p[j])
        if kind.endswith('and_col'):
            for r in rows:
                r.insert(min(k, len(r)), r[j] if len(r) > j else False)
    elif kind == 'overlap' and n and m:
        p[j] = o[(pos // 5) % n]
    elif kind == 'empty_label' and n and m:          # '' is a legal label (valid input)
        if pos & 1:
            o[i] = ''
        else:
            p[j] = ''
    elif kind == 'overlap_empty_label' and n and m:  # ... but not on both sides
        o[i] = ''
        p[j] = ''
    elif kind == 'drop_row' and rows:
        del rows[pos % len(rows)]
    elif kind == 'add_row':
        rows.insert(pos % (len(rows) + 1), list(rows[pos % len(rows)]) if rows else [False] * m)
    elif kind == 'shorten_one_row' and rows and rows[pos % len(rows)]:
        rows[pos % len(rows)].pop((pos // 3) % len(rows[pos % len(rows)]))
    elif kind == 'extend_one_row' and rows:
        rows[pos % len(rows)].append(bool(pos & 1))
    elif kind == 'shorten_all_rows' and rows and all(rows):
        for r in rows:
            r.pop()
    elif kind == 'extend_all_rows' and rows:
        for r in rows:
            r.append(bool(pos & 1))
    elif kind == 'empty_objects':
        o, rows = [], []
    elif kind == 'empty_properties':
        p, rows = [], [[] for _ in rows]
    elif kind == 'empty_rows':
        rows = []
    else:
        return None
    return {'kind': 'triple', 'objects': o, 'properties': p, 'rows': rows, 'rowtype': t.get('rowtype', 'tuple')}


TRIPLE_KINDS = ['drop_object_keep_rows', 'drop_object_and_row', 'dup_object_keep_rows', 'dup_object_and_row',
                'drop_property_keep_cols', 'drop_property_and_col', 'dup_property_keep_cols', 'dup_property_and_col',
                'overlap', 'empty_label', 'overlap_empty_label', 'drop_row', 'add_row', 'shorten_one_row', 'extend_one_row', 'shorten_all_rows',
                'extend_all_rows', 'empty_objects', 'empty_properties', 'empty_rows']


def corrupt_dict(t, kind, pos):
    d = copy.deepcopy(t['d'])
    out = dict(t, d=d)
    has = all(k in d for k in ('objects', 'properties', 'context'))
    if kind == 'delete_key':
        key = ('objects', 'properties', 'context', 'lattice')[pos % 4]
        if key not in d:
            return None
        del d[key]
        return out
    if kind == 'require_lattice':
        out['require_lattice'] = True
        return out
    if kind == 'ignore_lattice':      # an option, not a corruption: every rule still applies
        out['ignore_lattice'] = True
        return out
    if kind == 'extra_key':
        d['comment'] = 'x'
        return out
    if kind == 'empty_lattice':
        d['lattice'] = [] if pos & 1 else ()
        return out
    if not has:
        return None
    o, p, c = d['objects'], d['properties'], d['context']
    n, m = len(o), len(p)
    if kind == 'bad_name':
        which, seq = (('objects', o) if pos & 1 else ('properties', p))
        if not seq:
            return None
        seq = list(seq)
        seq[(pos // 2) % len(seq)] = BAD_NAMES[(pos // 3) % len(BAD_NAMES)]
        d[which] = seq
    elif kind == 'index_eq_len' and c:
        r = list(c[pos % len(c)])
        r.append(m)
        c[pos % len(c)] = r
    elif kind == 'index_negative' and c:
        r = list(c[pos % len(c)])
        r.insert((pos // 3) % (len(r) + 1), -1)
        c[pos % len(c)] = r
    elif kind == 'index_repeated' and c and c[pos % len(c)]:
        r = list(c[pos % len(c)])
        r.append(r[(pos // 3) % len(r)])
        c[pos % len(c)] = r
    elif kind == 'drop_context_row' and c:
        del c[pos % len(c)]
    elif kind == 'add_context_row':
        c.insert(pos % (len(c) + 1), [])
    elif kind == 'drop_object' and n:
        o = list(o)
        del o[pos % n]
        d['objects'] = o
    elif kind == 'drop_object_and_row' and n and len(c) == n:
        o = list(o)
        del o[pos % n]
        del c[pos % n]
        d['objects'] = o
    elif kind == 'dup_object_and_row' and n and len(c) == n:
        o = list(o)
        o.append(o[pos % n])
        c.append(list(c[pos % n]))
        d['objects'] = o
    elif kind == 'dup_property' and m:
        p = list(p)
        p.append(p[pos % m])
        d['properties'] = p
    elif kind == 'drop_last_property' and m:
        d['properties'] = list(p)[:-1]
    elif kind == 'overlap' and n and m:
        p = list(p)
        p[pos % m] = o[(pos // 5) % n]
        d['properties'] = p
    elif kind in ('empty_label', 'overlap_empty_label') and n and m:
        o, p = list(o), list(p)
        if kind == 'overlap_empty_label' or pos & 1:
            o[pos % n] = ''
        if kind == 'overlap_empty_label' or not pos & 1:
            p[(pos // 3) % m] = ''
        d['objects'], d['properties'] = o, p
    elif kind == 'empty_objects':
        d['objects'], d['context'] = [], []
    elif kind == 'empty_properties':
        d['properties'], d['context'] = [], [[] for _ in c]
    elif kind == 'reverse_rows':
        d['context'] = [list(reversed(r)) for r in c]
    elif kind == 'as_tuples':
        d['objects'], d['properties'], d['context'] = tuple(o), tuple(p), [tuple(r) for r in c]
    else:
        return None
    return out


DICT_KINDS = ['delete_key', 'require_lattice', 'ignore_lattice', 'extra_key', 'empty_lattice', 'bad_name', 'index_eq_len', 'index_negative',
              'index_repeated', 'drop_context_row', 'add_context_row', 'drop_object', 'drop_object_and_row',
              'dup_object_and_row', 'dup_property', 'drop_last_property', 'overlap', 'empty_label', 'overlap_empty_label', 'empty_objects', 'empty_properties',
              'reverse_rows', 'as_tuples']
CONTEXT_CHANGING = {'drop_object_and_row', 'dup_object_and_row', 'drop_last_property', 'add_context_row', 'drop_context_row',
                    'drop_object', 'dup_property', 'overlap', 'empty_label', 'overlap_empty_label', 'bad_name', 'index_eq_len', 'index_negative', 'index_repeated',
                    'empty_objects', 'empty_properties'}


# ---------------------------------------------------------------------------
# the check proper

def run_input(inp, ctx, applied=()):
    import concepts
    if inp['kind'] == 'triple':
        o, p, rows = inp['objects'], inp['properties'], inp['rows']
        broken = triple_rules(o, p, rows)
        rowtype = tuple if inp.get('rowtype') == 'tuple' else list
        args = (list(o), list(p), [rowtype(r) for r in rows])
        call = lambda: concepts.Context(*args)
        site = 'Context()'
        nonbool = any(type(c) is not bool for r in rows for c in r)
        special = nonbool or rowtype is list or 'empty_label' in applied
    else:
        d = copy.deepcopy(inp['d'])
        for k in ('objects', 'properties'):
            if k in d:
                d[k] = type(d[k])(decode_name(x) for x in d[k])
        req = bool(inp.get('require_lattice'))
        broken = dict_rules(inp['d'], req)
        ign = bool(inp.get('ignore_lattice'))
        call = lambda: concepts.Context.fromdict(d, require_lattice=req, ignore_lattice=ign)
        site = 'fromdict()'
        special = bool(set(applied) & {'extra_key', 'reverse_rows', 'as_tuples', 'empty_label', 'ignore_lattice'})
    case = {'input': inp, 'applied': list(applied)}
    nt = len(broken) == 1 or (not broken and special)
    classes = [inp['kind']] + (sorted('rule:' + b for b in broken) if broken else ['valid'])
    if len(broken) == 1:
        classes.append('single-rule')
    ctx.case(case, nt, classes)
    try:
        c = call()
        raised = None
    except Exception as e:  # noqa: BLE001 - the class is the oracle
        raised = e
    if broken:
        ctx.check(raised is not None, site + '/accepted-invalid', case,
                  lambda: f'broken rules {sorted(broken)} but a context was created')
        ctx.check(isinstance(raised, ValueError), site + '/exception-class', case,
                  lambda: f'broken rules {sorted(broken)}: raised {type(raised).__name__}: {raised}, want ValueError')
        return
    if raised is not None:
        ctx.fail(site + '/rejected-valid:' + type(raised).__name__, case, f'valid input raised {type(raised).__name__}: {raised}')
    if inp['kind'] == 'triple':
        want = (tuple(o), tuple(p), [tuple(bool(x) for x in r) for r in rows])
    else:
        dd = inp['d']
        m = len(dd['properties'])
        want = (tuple(dd['objects']), tuple(dd['properties']),
                [tuple(j in set(r) for j in range(m)) for r in dd['context']])
    got = (c.objects, c.properties, c.bools)
    ctx.check(got == want, site + '/representation', case, lambda: f'accepted input is represented as {got!r}, want {want!r}')
    # the values handed out belong to the caller: destroy them in place, then ask again
    ctx.call(site + '/wreck', case, lambda: [lib.wreck(x) for x in got if isinstance(x, list)])
    again = (c.objects, c.properties, c.bools)
    ctx.check(again == want, site + '/representation-after-caller-edit', case,
              lambda: f'after the caller modified the list returned by .bools the context shows {again!r}, want {want!r}')
    # ... and so do the arguments the context was built from: the caller reuses / edits its own lists afterwards
    if inp['kind'] == 'triple':
        ctx.call(site + '/wreck-arguments', case, lambda: [lib.wreck(a) for a in args])
    else:
        ctx.call(site + '/wreck-arguments', case, lib.wreck, d)
    again = (c.objects, c.properties, c.bools)
    ctx.check(again == want, site + '/representation-after-argument-edit', case,
              lambda: f'after the caller modified the arguments it had passed the context shows {again!r}, want {want!r}')


def base_triple(case, cells='bool', rowtype='tuple'):
    rows = gen.bools_of(case)
    return {'kind': 'triple', 'objects': list(case['o']), 'properties': list(case['p']),
            'rows': [list(r) for r in rows], 'rowtype': rowtype}


def base_dict(case, with_lattice):
    m = len(case['p'])
    d = {'objects': list(case['o']), 'properties': list(case['p']),
         'context': [[j for j in range(m) if r >> j & 1] for r in case['r']]}
    if with_lattice:
        ref = Ref.of(case)
        upper, lower = ref.covers()
        from vlib.oracle import positions, shortlex_key, longlex_key
        cs = ref.concepts
        d['lattice'] = [[list(positions(e)), list(positions(i)),
                         sorted(upper[k], key=lambda t: shortlex_key(cs[t][0])),
                         sorted(lower[k], key=lambda t: longlex_key(cs[t][0]))] for k, (e, i) in enumerate(cs)]
    return {'kind': 'dict', 'd': d}


def apply_all(base, kinds_pos):
    inp = base
    applied = []
    for kind, pos in kinds_pos:
        fn = corrupt_triple if inp['kind'] == 'triple' else corrupt_dict
        new = fn(inp, kind, pos)
        if new is None:
            continue
        inp = new
        applied.append(kind)
    if inp['kind'] == 'dict' and set(applied) & CONTEXT_CHANGING and 'lattice' in inp['d'] and inp['d']['lattice']:
        # a stored lattice that no longer matches the table is outside the property (DESIGN.md 5)
        inp = dict(inp, d={k: v for k, v in inp['d'].items() if k != 'lattice'})
    return inp, applied


def systematic_task(task, ctx):
    n, m = task['n'], task['m']
    rnd = gen._random.Random(repr(('c19', n, m, task['start'], ctx.seed)))
    for t in range(task['start'], task['stop']):
        case = gen.table_from_index(n, m, t, ctx.seed)
        for base, kinds in ((base_triple(case), TRIPLE_KINDS), (base_dict(case, bool(t & 1)), DICT_KINDS)):
            run_input(base, ctx)
            size = max(n, m) + 1
            for kind in kinds:
                for pos in range(size * 2):
                    inp, applied = apply_all(base, [(kind, pos)])
                    if applied:
                        run_input(inp, ctx, applied)
            for k1, k2 in itertools.permutations(kinds, 2):
                inp, applied = apply_all(base, [(k1, rnd.randrange(64)), (k2, rnd.randrange(64))])
                if len(applied) == 2:
                    run_input(inp, ctx, applied)


@st.composite
def hyp_inputs(draw):
    case = draw(gen.tables('small'))
    if draw(st.booleans()):
        base = base_triple(case, rowtype=draw(st.sampled_from(['tuple', 'list'])))
        if draw(st.booleans()):
            base['rows'] = [[draw(st.sampled_from(TRUTHY if c else FALSY)) for c in r] for r in base['rows']]
        kinds = TRIPLE_KINDS
    else:
        base = base_dict(case, draw(st.booleans()))
        kinds = DICT_KINDS
    steps = draw(st.lists(st.tuples(st.sampled_from(kinds), st.integers(0, 63)), max_size=2))
    inp, applied = apply_all(base, steps)
    return inp, applied


def plan(tier, seed):
    cells = 6 if tier == 'quick' else 9
    tasks = gen.exhaustive_blocks(cells, block=16 if tier == 'quick' else 64)
    for t in tasks:
        t['kind'] = 'systematic'
    shards, examples = (8, 400) if tier == 'quick' else (16, 5000)
    for k in range(shards):
        tasks.append({'kind': 'hyp', 'examples': examples, 'seed': seed * 1000 + k})
    if tier == 'thorough':
        tasks += [{'kind': 'atheris', 'runs': 6000, 'seed': seed * 100 + k} for k in range(4)]
    return tasks


def run(task, ctx):
    if task['kind'] == 'systematic':
        ctx.guarded(systematic_task, task, ctx)
    elif task['kind'] == 'atheris':
        from vlib import runner
        ctx.guarded(runner.atheris_task, ctx, PROPERTY, task['runs'], task['seed'])
    else:
        ctx.hypothesis(lambda pair: run_input(pair[0], ctx, pair[1]), hyp_inputs(), task['examples'], task['seed'])


def replay(case, ctx):
    run_input(case['input'], ctx, case.get('applied', ()))
