"""C20 - the Graphviz export is a faithful drawing of the labelled Hasse diagram."""

import collections

from hypothesis import strategies as st

from vlib import dotparse, gen, lib, tablecheck
from vlib.latcheck import Built
from vlib.oracle import positions

PROPERTY = 'C20'
RULE = ('cases are (table, label mode): tables exhaustive n*m <= 12 (quick) / <= 16 (thorough) and Hypothesis fill '
        'families incl. one- and two-concept lattices and multi-label concepts; mode (a) token callbacks that record '
        'the exact name tuple they receive and return a fresh token (also wrapped as graphviz.nohtml("<token>"), which must '
        'come out as a quoted literal), mode (b) default callbacks with drawn labels '
        'over Unicode categories L/M/N/P/S/Zs minus backslash, <, > (Hypothesis cases) or the o<k>/p<k> labels. '
        'Oracle: an independent DOT statement parser reads graphviz().body (and .source is checked to embed the same '
        'lines): exactly one node statement per concept named c<index>; the multiset of plain edges == {(c<i>, c<j>) '
        '| j lower cover of i} by the REFERENCE cover relation; a self-loop with headlabel on a node iff the '
        'reference labelling puts objects there, built from exactly those names in context order; same for taillabel '
        'and properties; nothing else in the body. Non-trivial: >= 3 concepts and some concept carries >= 2 names in '
        'one label or both kinds of label. The default mode is run a second time on the same lattice after the Digraph '
        'returned by an earlier call was edited by the caller (the drawing may not depend on earlier drawings).')
ASSUMPTIONS = ['reference model vlib/oracle.py', 'graphviz package quotes attribute values as DOT strings '
               '(backslash, <, > excluded from generated labels)']

ALPHABET = st.characters(whitelist_categories=('L', 'M', 'N', 'P', 'S', 'Zs'), blacklist_characters='\\<>')


def check_mode(b, case, ctx, plain, mode):
    ref, lat = b.ref, b.lattice
    cs = ref.concepts
    k = len(cs)
    objs_at, props_at = ref.labels()
    _, lower = ref.covers()
    calls = {'o': [], 'p': []}

    def tok(kind):
        def make(names):
            names = tuple(names)
            calls[kind].append(names)
            # every other token carries a backslash inside (DOT escapes in label text must pass through untouched)
            n = len(calls[kind]) - 1
            return f'T{kind}{n}' + ('\\e' if n % 2 else '')
        return make

    class FalsyCallable(list):
        """A callback object that is callable but falsy (an empty list subclass, e.g. a recorder of its calls)."""

        def __init__(self, inner):
            super().__init__()
            self.inner = inner

        def __call__(self, names):
            return self.inner(names)

    def nohtml_tok(kind):
        import graphviz
        inner = tok(kind)

        def make(names):
            # the graphviz package's documented way to get a literal '<...>' label
            return graphviz.nohtml('<' + inner(names) + '>')
        return make

    q = lambda: {'table': plain, 'mode': mode}
    if mode == 'token':
        dot = ctx.call('graphviz(token)', q, lambda: lat.graphviz(make_object_label=tok('o'), make_property_label=tok('p')))
    elif mode == 'defaulted-parameter':
        # ordinary callbacks with a second, defaulted parameter: the library must go on calling callback(names)
        to, tp = tok('o'), tok('p')
        dot = ctx.call('graphviz(defaulted parameter)', q, lambda: lat.graphviz(
            make_object_label=lambda names, sep=', ': to(names) if sep == ', ' else 'SEP-REPLACED',
            make_property_label=lambda names, prefix='': tp(names) if prefix == '' else 'PREFIX-REPLACED'))
    elif mode == 'falsy-callable':
        dot = ctx.call('graphviz(falsy callable)', q, lambda: lat.graphviz(make_object_label=FalsyCallable(tok('o')),
                                                                          make_property_label=FalsyCallable(tok('p'))))
    elif mode == 'nohtml':
        dot = ctx.call('graphviz(nohtml)', q, lambda: lat.graphviz(make_object_label=nohtml_tok('o'),
                                                                    make_property_label=nohtml_tok('p')))
    else:
        dot = ctx.call('graphviz', q, lat.graphviz)
    try:
        stmts = dotparse.parse_body(dot.body)
    except dotparse.DotError as e:
        ctx.fail('dot-syntax', q(), f'body not parseable: {e}: {dot.body!r}')
    nodes = [w for kind, w, a in stmts if kind == 'node']
    # a node statement may carry cosmetic attributes; label / direction / visibility attributes would change what is drawn
    ctx.check(all(not any(key in dotparse.ORACLE_KEYS for key in a) for kind, w, a in stmts if kind == 'node'),
              'node-attrs', q, 'node statement with label / style attributes')
    ctx.check(sorted(nodes) == sorted(f'c{i}' for i in range(k)), 'nodes', q,
              lambda: f'node statements {nodes}, want one per concept c0..c{k - 1}')
    plain_edges = collections.Counter(w for kind, w, a in stmts if kind == 'edge' and not a)
    want_edges = collections.Counter((f'c{i}', f'c{j}') for i in range(k) for j in lower[i])
    ctx.check(plain_edges == want_edges, 'edges', q,
              lambda: f'edges {sorted(plain_edges.elements())}, want {sorted(want_edges.elements())}')
    labelled = [(w, a) for kind, w, a in stmts if kind == 'edge' and a]
    heads, tails = {}, {}
    for (t, h), a in labelled:
        ctx.check(t == h, 'label-edge-not-loop', q, lambda: f'labelled edge {t} -> {h} is not a self-loop')
        keys = set(a)
        ctx.check(('headlabel' in keys) != ('taillabel' in keys), 'label-edge-kind', q,
                  lambda: f'label edge on {t} has attributes {sorted(keys)}')
        target = heads if 'headlabel' in a else tails
        ctx.check(t not in target, 'label-duplicate', q, lambda: f'two label edges of one kind on {t}')
        target[t] = a.get('headlabel', a.get('taillabel'))
        ctx.check(a.get('color') == 'transparent', 'label-edge-visible', q, f'label edge on {t} is not transparent')
    for kind, at, got, names_of in (('o', objs_at, heads, case['o']), ('p', props_at, tails, case['p'])):
        want_nodes = {f'c{i}' for i in at}
        ctx.check(set(got) == want_nodes, 'label-presence/' + kind, q,
                  lambda: f'{"object" if kind == "o" else "property"} labels on {sorted(got)}, want on {sorted(want_nodes)}')
        for i, pos in at.items():
            names = tuple(names_of[t] for t in pos)
            text = got[f'c{i}']
            if mode == 'nohtml':
                ctx.check(isinstance(text, dotparse.QStr) and text.startswith('<') and text.endswith('>'), 'label-literal', q,
                          lambda: f'label {text!r} on c{i} produced as nohtml("<...>") is not emitted as a quoted literal')
                text = text[1:-1]
            if mode in ('token', 'nohtml', 'falsy-callable', 'defaulted-parameter'):
                if text.endswith('\\e'):
                    ctx.check(text[2:-2].isdigit() and int(text[2:-2]) % 2 == 1, 'label-backslash', q,
                              lambda: f'label {text!r} on c{i}: backslash in the callback text was altered')
                    text = text[:-2]
                else:
                    ctx.check('\\' not in text, 'label-backslash', q,
                              lambda: f'label {text!r} on c{i}: backslash in the callback text was altered')
                ctx.check(text.startswith('T' + kind) and text[2:].isdigit() and int(text[2:]) < len(calls[kind]),
                          'label-token', q, lambda: f'label {text!r} on c{i} was not produced by the callback')
                ctx.check(calls[kind][int(text[2:])] == names, 'label-names', q,
                          lambda: f'callback for c{i} got {calls[kind][int(text[2:])]!r}, want {names!r}')
            else:
                ctx.check(text == ' '.join(names), 'label-text', q,
                          lambda: f'label on c{i} is {text!r}, want {" ".join(names)!r}')
    if mode in ('token', 'nohtml', 'falsy-callable', 'defaulted-parameter'):
        ctx.check(len(calls['o']) == len(objs_at) and len(calls['p']) == len(props_at), 'callback-count', q,
                  'label callbacks called a different number of times than there are labelled concepts')
    src = dot.source
    ctx.check(all(line in src for line in dot.body), 'source', q, '.source does not embed the body')
    ctx.check(len(stmts) == k + sum(want_edges.values()) + len(objs_at) + len(props_at), 'extra-statements', q,
              'body contains other statements')


def check_one(case, ctx, deep):
    plain = lib.strip(case)
    for rep in range(3 if deep else 1):
        if rep != 1:   # rep 1 repeats every query on the SAME objects (answers may not depend on having been asked before)
            b = Built(case, ctx, plain)
        else:          # ... nor on what other contexts were created and asked in between
            lib.interfere(case)
        objs_at, props_at = b.ref.labels()
        k = len(b.ref.concepts)
        multi = (any(len(v) >= 2 for v in objs_at.values()) or any(len(v) >= 2 for v in props_at.values())
                 or bool(set(objs_at) & set(props_at)))
        for mode in ('token', 'nohtml', 'falsy-callable', 'defaulted-parameter', 'default', 'default-again'):
            if rep == 0:
                ctx.case({'table': plain, 'mode': mode}, k >= 3 and multi,
                         [lib.size_bucket(k), 'mode:' + mode] + (['multi-or-both-labels'] if multi else []))
            if mode == 'default-again':
                # history on ONE lattice: draw, let the caller edit the returned Digraph, draw again
                dot = ctx.call('graphviz', plain, b.lattice.graphviz)
                dot.node('c0', color='red')
                dot.edge('c0', 'c0', style='dashed')
                del dot.body[:len(dot.body) // 2]
                check_mode(b, case, ctx, plain, 'default')
            else:
                check_mode(b, case, ctx, plain, mode)


@st.composite
def labelled_tables(draw):
    case = draw(gen.tables('small'))
    n, m = len(case['o']), len(case['p'])
    names = draw(st.lists(st.text(ALPHABET, min_size=1, max_size=6), min_size=n + m, max_size=n + m, unique=True))
    case['o'], case['p'] = names[:n], names[n:]
    return case


def plan(tier, seed):
    return tablecheck.plan(tier, seed, quick_cells=12, thorough_cells=16, thorough_shapes=(), thorough_multisets=(),
                           hyp_quick=(12, 150), hyp_thorough=(16, 1500), profiles=('small', 'labelled', 'medium'))


def run(task, ctx):
    tablecheck.run(task, ctx, check_one,
                   strategy_of=lambda t: labelled_tables() if t['profile'] == 'labelled' else gen.tables(t['profile']))


def replay(case, ctx):
    check_one(case['table'] if 'table' in case else case, ctx, True)
