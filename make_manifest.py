#!/venv/bin/python
"""Regenerate MANIFEST.json from the per-property table below and validate it against the schema."""
import json
import os

VERIF = os.path.dirname(os.path.abspath(__file__))

GUARD = 'CONCEPTS_VERIF'

LEVEL_NOTE = ('Trusted base: the reference model / independent readers in /verif/vlib (self-tested at start-up), '
              'CPython, the third-party packages bitsets and graphviz. No absence claim beyond the enumerated bounds; '
              'above them coverage is sampled (seeded by VERIF_SEED). Besides the inputs named here every check runs the '
              'history / caller / interpreter devices of DESIGN.md 10.2 (other contexts with equal labels, other public calls '
              'before the checked ones, interleaved iterators, return values and arguments destroyed by the caller, '
              'concepts whose lattice was dropped, fresh string objects, set / dict / iterator argument forms, odd label '
              'content, two tasks repeated under python -O) and, where the property is about lattices, structured big cases '
              'with closed-form answers (chains of 400-520 concepts, Boolean lattices 2**14 .. 2**19, tables of 500-5000 '
              'objects).')

# id -> (technique, level text, design section)
CHECKS = {
    'C01': ('exhaustive tables x all subsets + Hypothesis (incl. >64-column) tables vs cell-by-cell definition of the derivations',
            'intension/extension are compared, for every subset of every table up to 12/16 cells and for structured '
            'subsets of wide (60-320 column/row) tables, with the definition evaluated cell by cell on the input; '
            'argument forms (repeats, order, iterators) and raw/label forms are varied.', '3 C01'),
    'C02': ('exhaustive tables x all non-empty subsets vs reference closure + leastness/closure-law checks + identity of returned members',
            'context[...] / lattice[...] / lattice(...) are checked against the reference closure, against leastness '
            'among all reference concepts, and for object identity with the lattice members.', '3 C02'),
    'C03': ('exhaustive small-table enumeration + Hypothesis table families vs brute-force concept model',
            'Every boolean table up to 12 cells (quick) / 18 cells, 4x5, 5x4 and all 5x5 / 6x4 row multisets (thorough) '
            'is compared with an independent closure-system model, plus seeded Hypothesis tables from explicit fill '
            'families up to 10x10; exploration is the right level because the property is a pure function of a small '
            'structured input and an obviously-correct oracle exists.', '3 C03'),
    'C04': ('differential: four generators vs brute-force concept model on exhaustive + Hypothesis tables',
            'fast_generate_from, fcbo_dual, iterconcepts, get_concepts are each compared (as repeat-free sets) with the '
            'reference concept set on the C03 enumerations.', '3 C04'),
    'C05': ('exhaustive + Hypothesis tables x all concepts vs covering relation computed by search',
            'upper/lower neighbours, their converse and Context.neighbors for all object subsets are compared with '
            'covers computed by search over the reference concepts.', '3 C05'),
    'C06': ('exhaustive + Hypothesis tables (labels permuted against position) vs sort keys of the reference model, on computed / reloaded / raw-reloaded lattices',
            'iteration order, index, dindex, infimum/supremum/atoms and neighbour tuple order are compared with '
            '(len, positions) sort keys on three lattices per table.', '3 C06'),
    'C07': ('all ordered concept pairs + drawn multisets vs least-upper / greatest-lower bound found by search; algebraic laws',
            'join/meet (n-ary, binary, operators) must return the member that is the bound found by search among the '
            'reference concepts; lattice laws asserted directly.', '3 C07'),
    'C08': ('all ordered concept pairs vs set formulas on position sets',
            'the eight order predicates and four relation predicates are compared with the set formulas of the '
            'property text for every ordered pair.', '3 C08'),
    'C09': ('all concepts, all pairs and drawn multisets of seeds vs reference filters/ideals as exact ordered lists',
            'upset/downset/upset_union/downset_union lists must equal the reference up/down-sets sorted by index/dindex.', '3 C09'),
    'C10': ('exhaustive + Hypothesis tables vs reference object/attribute concepts, label unions, atoms and string rendering',
            'reduced labels, their unions along up/downsets, concept.atoms and str() are compared with the reference model.', '3 C10'),
    'C11': ('Hypothesis tables x persistence configurations: reference encoding of todict(), loaded-vs-recomputed lattice fingerprints, raw permutations, pickles in-process and in fresh interpreters with other hash seeds',
            'todict() is compared with the encoding computed from the reference model; every reload path (dict, JSON '
            'text/file, python-literal string/file, raw=True on permuted data, pickle of context and lattice in the same '
            'and in other interpreter processes) must give an equal context whose lattice answers every public query '
            'like the recomputed one; lattices from 1 to 4096 concepts.', '3 C11'),
    'C12': ('Hypothesis labels x fills x format configurations: round trips, independent readers and writers, documented layout, index exports',
            'four independent sub-oracles per format (round trip through every loader entry point, independent reader of '
            'the emitted text, independent writer variants loaded by the library, FIMI / concept .dat index lists) over '
            'per-format label alphabets, encodings, csv dialects, indents and suffix cases.', '3 C12'),
    'C13': ('bounded exhaustive state x operation x probe enumeration + Hypothesis rule-based state machine vs ordered-table model',
            'every visible definition over a small name universe x every operation instance (x every probing operation '
            'as a further step) and long random histories over larger universes are compared step by step with a '
            'two-lists-and-a-set model, including rejected calls leaving the state unchanged.', '3 C13'),
    'C14': ('exhaustive source x other x derivation x follow-up edit enumeration + pool state machine vs ordered-table model; aliasing by edit-and-compare',
            'every pair of small definitions x every derivation x every single follow-up edit on each side, a pool '
            'state machine, and Context<->Definition round trips on Hypothesis tables.', '3 C14'),
    'C15': ('metamorphic relations (permutation, transposition, duplication) on exhaustive + Hypothesis tables, no reference model',
            'label-level statements about concepts, covers, joins, meets, relations and the FCbO generators are compared '
            'between a table and its transformed versions.', '3 C15'),
    'C16': ('exhaustive + biased Hypothesis tables vs classification rebuilt from the four-combination table',
            'relations() (with and without unary) and its printed forms are compared with an oracle built from the '
            'property text.', '3 C16'),
    'C17': ('differential execution of generated call scripts in K fresh interpreters with different PYTHONHASHSEED; ddmin over script steps',
            'the same Hypothesis-generated script file (context batteries, definition edit histories, error probes) is '
            'executed by K interpreter processes with different hash seeds and the transcripts must be identical '
            '(addresses masked); differences are minimised by delta debugging.', '3 C17'),
    'C18': ('exhaustive + Hypothesis tables x all concepts vs brute-force generating subsets',
            'attributes()/minimal() are compared with brute-force enumeration of generating subsets of each intent.', '3 C18'),
    'C19': ('systematic single/double corruption of valid inputs + Hypothesis, vs independent rule predicate',
            'every small table x every corruption instance and pair of corruption kinds is fed to Context()/fromdict(); '
            'acceptance must coincide with an independent rule predicate and rejection must be ValueError.', '3 C19'),
    'C20': ('exhaustive + Hypothesis tables, token and default label callbacks, independent DOT statement parser vs reference covers and labels',
            'the DOT body is parsed independently and compared with the reference cover relation and reduced labelling.', '3 C20'),
}


def build():
    props = [json.loads(l) for l in open(os.path.join(VERIF, 'properties.jsonl'), encoding='utf-8')]
    checks = []
    not_applicable = []
    for p in props:
        pid = p['id']
        if pid in CHECKS and os.path.exists(os.path.join(VERIF, 'checks', pid.lower() + '.py')):
            technique, text, ref = CHECKS[pid]
            checks.append({
                'property_id': pid,
                'quick_cmd': f'/venv/bin/python run_check.py {pid} --tier quick',
                'thorough_cmd': f'/venv/bin/python run_check.py {pid} --tier thorough',
                'evidence_file': f'/verif/evidence/{pid}.json',
                'replay_cmd_template': f'/venv/bin/python run_check.py {pid} --replay {{path}}',
                'engine': 'pbt-runner',
                'level_claimed': {'category': 'exploration', 'text': text, 'design_ref': f'DESIGN.md section {ref}'},
                'level_note': LEVEL_NOTE,
                'technique': 'property-based testing: ' + technique,
            })
        else:
            not_applicable.append({'property_id': pid,
                                   'reason': 'check not built yet in this session (planned in DESIGN.md section 3); '
                                             'the technique applies'})
    manifest = {
        'version': 1,
        'setup_cmd': '/venv/bin/python setup_verif.py --with-atheris',
        'hooks': {
            'guard': GUARD,
            'enable': 'no hooks are needed: every property is observable through the public API; checks import '
                      '/repo (or $VERIF_REPO) directly from the working tree, there is no build step',
            'baseline_off_cmd': 'cd /repo && /venv/bin/python -m pytest -ra -q -p no:cacheprovider --timeout=900 '
                                '--continue-on-collection-errors',
            'source_commits': [],
            'add_only': True,
        },
        'engines': [{
            'name': 'pbt-runner',
            'path': '/verif/run_check.py',
            'serves_properties': [c['property_id'] for c in checks],
            'kind_free_text': 'Hypothesis 6.168 strategies / rule-based state machines + exhaustive small-scope '
                              'enumerators, sharded over 16 worker processes, explicit reference-model / round-trip / '
                              'metamorphic oracles, shrunk failures written as JSON replay files',
        }],
        'checks': checks,
        'notes': 'Known findings and fixed defects: /verif/known_findings.txt. Seeded breaking changes and which check '
                 'catches them: /verif/seeded/ and DESIGN.md. Exit codes: 0 held, 1 VIOLATION, 2 harness error / '
                 'inconclusive.',
    }
    manifest['not_applicable'] = not_applicable   # kept explicit: empty - all 20 properties are claimed
    return manifest


if __name__ == '__main__':
    m = build()
    try:
        import jsonschema
        jsonschema.validate(m, json.load(open('/root/.vp/MANIFEST.schema.json')))
    except ImportError:
        pass
    with open(os.path.join(VERIF, 'MANIFEST.json'), 'w') as f:
        json.dump(m, f, indent=1)
        f.write('\n')
    print('MANIFEST.json:', len(m['checks']), 'checks,', len(m.get('not_applicable', [])), 'not claimed')
