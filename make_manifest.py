#!/venv/bin/python
"""Regenerate MANIFEST.json from the per-property table below and validate it against the schema."""
import json
import os

VERIF = os.path.dirname(os.path.abspath(__file__))

GUARD = 'CONCEPTS_VERIF'

LEVEL_NOTE = ('Trusted base: the reference model / independent readers in /verif/vlib (self-tested at start-up), '
              'CPython, the third-party packages bitsets and graphviz. No absence claim beyond the enumerated bounds; '
              'above them coverage is sampled (seeded by VERIF_SEED).')

# id -> (technique, level text, design section)
CHECKS = {
    'C03': ('exhaustive small-table enumeration + Hypothesis table families vs brute-force concept model',
            'Every boolean table up to 12 cells (quick) / 16 cells, 4x5, 5x4 and all 5x5 / 6x4 row multisets (thorough) '
            'is compared with an independent closure-system model, plus seeded Hypothesis tables from explicit fill '
            'families up to 10x10; exploration is the right level because the property is a pure function of a small '
            'structured input and an obviously-correct oracle exists.', '3 C03'),
}


def build():
    props = [json.loads(l) for l in open(os.path.join(VERIF, 'properties.jsonl'), encoding='utf-8')]
    checks = []
    not_applicable = []
    for p in props:
        pid = p['id']
        if pid in CHECKS and os.path.exists(os.path.join(VERIF, 'checks', pid.lower() + '.py')):
            technique, text, ref = CHECKS[pid]
            checks.append({
                'property_id': pid,
                'quick_cmd': f'/venv/bin/python run_check.py {pid} --tier quick',
                'thorough_cmd': f'/venv/bin/python run_check.py {pid} --tier thorough',
                'evidence_file': f'/verif/evidence/{pid}.json',
                'replay_cmd_template': f'/venv/bin/python run_check.py {pid} --replay {{path}}',
                'engine': 'pbt-runner',
                'level_claimed': {'category': 'exploration', 'text': text, 'design_ref': f'DESIGN.md section {ref}'},
                'level_note': LEVEL_NOTE,
                'technique': 'property-based testing: ' + technique,
            })
        else:
            not_applicable.append({'property_id': pid,
                                   'reason': 'check not built yet in this session (planned in DESIGN.md section 3); '
                                             'the technique applies'})
    manifest = {
        'version': 1,
        'setup_cmd': '/venv/bin/python setup_verif.py',
        'hooks': {
            'guard': GUARD,
            'enable': 'no hooks are needed: every property is observable through the public API; checks import '
                      '/repo (or $VERIF_REPO) directly from the working tree, there is no build step',
            'baseline_off_cmd': 'cd /repo && /venv/bin/python -m pytest -ra -q -p no:cacheprovider --timeout=900 '
                                '--continue-on-collection-errors',
            'source_commits': [],
            'add_only': True,
        },
        'engines': [{
            'name': 'pbt-runner',
            'path': '/verif/run_check.py',
            'serves_properties': [c['property_id'] for c in checks],
            'kind_free_text': 'Hypothesis 6.168 strategies / rule-based state machines + exhaustive small-scope '
                              'enumerators, sharded over 16 worker processes, explicit reference-model / round-trip / '
                              'metamorphic oracles, shrunk failures written as JSON replay files',
        }],
        'checks': checks,
        'notes': 'Known findings and fixed defects: /verif/known_findings.txt. Seeded breaking changes and which check '
                 'catches them: /verif/seeded/ and DESIGN.md. Exit codes: 0 held, 1 VIOLATION, 2 harness error / '
                 'inconclusive.',
    }
    if not_applicable:
        manifest['not_applicable'] = not_applicable
    return manifest


if __name__ == '__main__':
    m = build()
    try:
        import jsonschema
        jsonschema.validate(m, json.load(open('/root/.vp/MANIFEST.schema.json')))
    except ImportError:
        pass
    with open(os.path.join(VERIF, 'MANIFEST.json'), 'w') as f:
        json.dump(m, f, indent=1)
        f.write('\n')
    print('MANIFEST.json:', len(m['checks']), 'checks,', len(m.get('not_applicable', [])), 'not claimed')
