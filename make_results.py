#!/venv/bin/python
"""Write mutants/RESULTS.md from mutants/RESULTS.json (catalogue) and mutants/SEEDED.json (seeded changes)."""
import json
import os

VERIF = os.path.dirname(os.path.abspath(__file__))


def load(name):
    p = os.path.join(VERIF, 'mutants', name)
    return json.load(open(p)) if os.path.exists(p) else {}


def main():
    cat = {m['id']: m for m in json.load(open(os.path.join(VERIF, 'mutants', 'catalogue.json')))}
    res = load('RESULTS.json')
    seeded = load('SEEDED.json')
    lines = ['# Sensitivity results', '',
             'Produced by `selftest_mutants.py` (quick tier unless stated): each mutant / seeded patch is applied to a',
             'scratch copy of `/repo/concepts` under `/var/tmp`, the check runs with `VERIF_REPO` pointing at it, the copy',
             'is removed.  `VIOLATION` = the check exits 1 with a `VIOLATION` line, `green` = exit 0.', '',
             '## Catalogue mutants (single-site, written before the checks existed)', '',
             '| mutant | property | pinned suite | expectation | result |', '|---|---|---|---|---|']
    ok = bad = 0
    for mid, m in cat.items():
        r = res.get(mid, {})
        negative = 'negative control' in m.get('expected', '')
        outcome = ', '.join(f'{k}: {v}' for k, v in sorted(r.items())) or 'not run'
        good = (all(v == 'green' for v in r.values()) if negative else any(v == 'VIOLATION' for v in r.values())) and r
        ok += bool(good)
        bad += (not good)
        lines.append(f'| `{mid}` | {m["property"]} | {m.get("pinned_suite", "-")} | '
                     f'{"negative control (must stay green)" if negative else "must be detected"} | '
                     f'{outcome}{"" if good else " **UNEXPECTED**"} |')
    lines += ['', f'{ok} of {ok + bad} as expected.', '',
              '## Independently seeded changes (`seeded/<id>/`)', '',
              'Written by fresh sub-agents that saw only the property text and a scratch worktree; each was confirmed',
              '(pinned suite 301/301 with the patch, demo fails with / passes without) before being kept.', '',
              '| id | property | needs to manifest | checks run -> result |', '|---|---|---|---|']
    base = os.path.join(VERIF, 'seeded')
    for sid in sorted(os.listdir(base)):
        meta = json.load(open(os.path.join(base, sid, 'meta.json')))
        r = seeded.get(sid, {})
        outcome = ', '.join(f'{k}: {v}' for k, v in sorted(r.items())) or 'not run'
        lines.append(f'| `{sid}` | {meta["property"]} | {meta["needs_to_manifest"]} | {outcome} |')
    open(os.path.join(VERIF, 'mutants', 'RESULTS.md'), 'w').write('\n'.join(lines) + '\n')
    print('\n'.join(lines[-30:]))


if __name__ == '__main__':
    main()
