#!/venv/bin/python
"""Write mutants/RESULTS.md from mutants/RESULTS.json (catalogue) and mutants/SEEDED.json (seeded changes)."""
import json
import os

VERIF = os.path.dirname(os.path.abspath(__file__))


def load(name):
    p = os.path.join(VERIF, 'mutants', name)
    return json.load(open(p)) if os.path.exists(p) else {}


def main():
    cat = {m['id']: m for m in json.load(open(os.path.join(VERIF, 'mutants', 'catalogue.json')))}
    res = load('RESULTS.json')
    seeded = load('SEEDED.json')
    thorough = load('SEEDED_thorough.json')
    lines = ['# Sensitivity results', '',
             'Produced by `selftest_mutants.py` (quick tier unless stated): each mutant / seeded patch is applied to a',
             'scratch copy of `/repo/concepts` under `/var/tmp`, the check runs with `VERIF_REPO` pointing at it, the copy',
             'is removed.  `VIOLATION` = the check exits 1 with a `VIOLATION` line, `green` = exit 0.', '',
             '## Catalogue mutants (single-site, written before the checks existed)', '',
             '| mutant | property | pinned suite | expectation | result |', '|---|---|---|---|---|']
    ok = bad = 0
    for mid, m in cat.items():
        r = res.get(mid, {})
        negative = 'negative control' in m.get('expected', '')
        outcome = ', '.join(f'{k}: {v}' for k, v in sorted(r.items())) or 'not run'
        good = (all(v == 'green' for v in r.values()) if negative else any(v == 'VIOLATION' for v in r.values())) and r
        ok += bool(good)
        bad += (not good)
        lines.append(f'| `{mid}` | {m["property"]} | {m.get("pinned_suite", "-")} | '
                     f'{"negative control (must stay green)" if negative else "must be detected"} | '
                     f'{outcome}{"" if good else " **UNEXPECTED**"} |')
    lines += ['', f'{ok} of {ok + bad} as expected.', '',
              '## Independently seeded changes (`seeded/<id>/`)', '',
              'Written by fresh sub-agents that saw only the property text and a scratch worktree; each was confirmed',
              '(pinned suite 301/301 with the patch, demo fails with / passes without) before being kept.', '',
              '| id | property | needs to manifest | checks run -> result |', '|---|---|---|---|']
    base = os.path.join(VERIF, 'seeded')
    for sid in sorted(os.listdir(base)):
        meta = json.load(open(os.path.join(base, sid, 'meta.json')))
        r = seeded.get(sid, {})
        outcome = ', '.join(f'{k}: {v}' for k, v in sorted(r.items())) or 'not run'
        th = thorough.get(sid, {})
        if th:
            outcome += '; thorough tier - ' + ', '.join(f'{k}: {v}' for k, v in sorted(th.items()))
        lines.append(f'| `{sid}` | {meta["property"]} | {meta["needs_to_manifest"]} | {outcome} |')
    refac = dict(load('REFACTORINGS.json'))
    for name in ('REFACTORINGS2.json', 'REFACTORINGS3.json'):   # re-runs after the round-7 / round-8 devices were added
        for k, v in load(name).items():
            refac.setdefault(k, {}).update(v)
    lines += ['', '## Behaviour-preserving refactorings (`refactorings/<id>/`, negative controls)', '',
              'Written by fresh sub-agents asked for a substantial restructuring with identical observable behaviour',
              '(each convinced itself with its own differential test against the pristine tree; pinned suite 301/301).',
              'ALL 20 checks are run on each; every one must stay green - an alarm would be a false alarm of the check',
              '(or a refactoring that is not one).', '',
              '| id | what was restructured | files | result over the 20 checks |', '|---|---|---|---|']
    base = os.path.join(VERIF, 'refactorings')
    for rid in sorted(os.listdir(base)) if os.path.isdir(base) else []:
        meta = json.load(open(os.path.join(base, rid, 'meta.json')))
        r = refac.get(rid, {})
        green = sum(v == 'green' for v in r.values())
        other = ', '.join(f'{k}: {v}' for k, v in sorted(r.items()) if v != 'green')
        lines.append(f'| `{rid}` | {meta["refactor"]} | {meta["files"]} | {green} of {len(r)} green'
                     f'{(" - " + other + " **UNEXPECTED**") if other else ""} |')
    var = dict(load('VARIATIONS.json'))
    for name in ('VARIATIONS2.json', 'VARIATIONS3.json', 'VARIATIONS4.json', 'VARIATIONS5.json', 'VARIATIONS6.json'):   # later files: re-runs with newer checks
        for k, v in load(name).items():
            var.setdefault(k, {}).update(v)
    lines += ['', '## Variations of behaviour the statements leave open (`variations/<id>/`, over-reach probes)', '',
              'Written by fresh sub-agents asked to change observable behaviour near one property in a way its statement',
              'does not constrain (pinned suite 301/301, a script showing the difference, a clause-by-clause argument).',
              'Results are those of the checks as they stand now; the five alarms of the first pass were false alarms of',
              'the checks and were corrected (DESIGN.md 10.8).', '',
              '| id | property | what was varied | checks run -> result |', '|---|---|---|---|']
    base = os.path.join(VERIF, 'variations')
    for vid in sorted(os.listdir(base)) if os.path.isdir(base) else []:
        meta = json.load(open(os.path.join(base, vid, 'meta.json')))
        r = var.get(vid, {})
        green = sum(v == 'green' for v in r.values())
        other = ', '.join(f'{k}: {v}' for k, v in sorted(r.items()) if v != 'green')
        lines.append(f'| `{vid}` | {meta["property"]} | {meta["variations"]} | {green} of {len(r)} green'
                     f'{(" - " + other + " **UNEXPECTED**") if other else ""} |')
    for seed in (2, 3):
        ms = load(f'SEEDED_seed{seed}.json')
        if ms:
            missed = sorted(k for k, v in ms.items() if not any(x == 'VIOLATION' for x in v.values())
                            and not any(x == 'VIOLATION' for x in thorough.get(k, {}).values()))
            lines += ['', f'Seeded changes re-run with VERIF_SEED={seed} (quick tier; the three thorough-only ones counted as detected): '
                      f'{len(ms) - len(missed)} of {len(ms)} detected'
                      + (f' (not detected: {", ".join(missed)})' if missed else '') + '.']
    open(os.path.join(VERIF, 'mutants', 'RESULTS.md'), 'w').write('\n'.join(lines) + '\n')
    print('\n'.join(lines[-30:]))


if __name__ == '__main__':
    main()
