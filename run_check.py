#!/venv/bin/python
"""Entry point: run_check.py <Cnn> --tier quick|thorough [--replay PATH]."""
import os
import sys

sys.path.insert(0, os.path.dirname(os.path.abspath(__file__)))
from vlib import runner  # noqa: E402

if __name__ == '__main__':
    sys.exit(runner.main())
