#!/venv/bin/python
"""Take a sub-agent's seeded change from its scratch worktree, confirm it independently, store it under seeded/.

usage: seed_collect.py C08 [--needs "what it needs to manifest"] [--src /tmp/seed-c08] [--id C08_a]

Confirmation (in a fresh scratch worktree of /repo under /tmp, removed afterwards):
  1. the patch applies to /repo HEAD and touches only concepts/;
  2. the unedited pinned suite passes with it (301 passed);
  3. the demonstration exits non-zero with the patch and 0 without it.
"""
import argparse
import json
import os
import re
import shutil
import subprocess
import sys

VERIF = os.path.dirname(os.path.abspath(__file__))


def sh(cmd, cwd=None, env=None, check=False):
    p = subprocess.run(cmd, cwd=cwd, env=env, capture_output=True, text=True, shell=isinstance(cmd, str))
    if check and p.returncode:
        raise SystemExit(f'{cmd} failed:\n{p.stdout}\n{p.stderr}')
    return p


def main():
    ap = argparse.ArgumentParser()
    ap.add_argument('prop')
    ap.add_argument('--src')
    ap.add_argument('--id')
    ap.add_argument('--needs', default='')
    args = ap.parse_args()
    prop = args.prop.upper()
    src = args.src or f'/tmp/seed-c{prop[1:]}'
    sid = args.id or prop
    dest = os.path.join(VERIF, 'seeded', sid)
    os.makedirs(dest, exist_ok=True)

    diff = sh(['git', '-C', src, 'diff'], check=True).stdout
    if not diff.strip():
        raise SystemExit('empty diff')
    files = re.findall(r'^diff --git a/(\S+)', diff, flags=re.M)
    if not all(f.startswith('concepts/') for f in files):
        raise SystemExit(f'patch touches files outside concepts/: {files}')
    open(os.path.join(dest, 'patch.diff'), 'w').write(diff)
    demo = f'demo_{prop}.py'
    shutil.copy(os.path.join(src, demo), os.path.join(dest, demo))

    wt = f'/tmp/verify-{sid.lower()}'
    sh(['git', '-C', '/repo', 'worktree', 'remove', '--force', wt])
    sh(['git', '-C', '/repo', 'worktree', 'add', '-q', '--detach', wt, 'HEAD'], check=True)
    try:
        env = dict(os.environ, PYTHONPATH=wt, PYTHONDONTWRITEBYTECODE='1')
        shutil.copy(os.path.join(dest, demo), os.path.join(wt, demo))
        clean = sh(['/venv/bin/python', demo], cwd=wt, env=env)
        sh(['git', '-C', wt, 'apply', os.path.join(dest, 'patch.diff')], check=True)
        broken = sh(['/venv/bin/python', demo], cwd=wt, env=env)
        suite = sh('/venv/bin/python -m pytest -q -p no:cacheprovider 2>&1 | tail -1', cwd=wt, env=env)
    finally:
        sh(['git', '-C', '/repo', 'worktree', 'remove', '--force', wt])
        shutil.rmtree(wt, ignore_errors=True)
    suite_line = suite.stdout.strip()
    ok = clean.returncode == 0 and broken.returncode != 0 and suite_line.startswith('301 passed')
    meta = {
        'property': prop,
        'breaks': json.loads(next(l for l in open(os.path.join(VERIF, 'properties.jsonl')) if f'"{prop}"' in l))['title'],
        'files': files,
        'needs_to_manifest': args.needs,
        'confirmed': {
            'repo_head': sh(['git', '-C', '/repo', 'rev-parse', '--short', 'HEAD']).stdout.strip(),
            'pinned_suite_with_patch': suite_line,
            'demo_exit_without_patch': clean.returncode,
            'demo_exit_with_patch': broken.returncode,
            'demo_output_with_patch_tail': broken.stdout[-600:],
            'ran': [f'git apply seeded/{sid}/patch.diff in a scratch worktree of /repo',
                    'PYTHONPATH=<worktree> /venv/bin/python -m pytest -q -p no:cacheprovider',
                    f'PYTHONPATH=<worktree> /venv/bin/python {demo} (with and without the patch)'],
        },
        'kept': ok,
    }
    json.dump(meta, open(os.path.join(dest, 'meta.json'), 'w'), indent=1)
    print(sid, 'confirmed' if ok else 'NOT CONFIRMED', '|', suite_line, '| demo clean rc', clean.returncode,
          '| demo patched rc', broken.returncode)
    if not ok:
        print(clean.stdout[-500:], clean.stderr[-500:], broken.stdout[-300:], broken.stderr[-500:])


if __name__ == '__main__':
    main()
