#!/venv/bin/python
"""Sensitivity run: apply catalogue mutants / seeded patches to a scratch copy and run checks on it.

usage: selftest_mutants.py [--only ID[,ID]] [--checks C03,C05] [--tier quick] [--suite]

Scratch copies live under /var/tmp (outside /repo and /verif) and are removed right after use.
Results are appended to mutants/RESULTS.json (machine) - RESULTS.md is written by --report.
"""

import argparse
import json
import os
import shutil
import subprocess
import sys
import tempfile

VERIF = os.path.dirname(os.path.abspath(__file__))
REPO = '/repo'


def scratch_copy():
    d = tempfile.mkdtemp(prefix='concepts-mut-', dir='/var/tmp')
    shutil.copytree(os.path.join(REPO, 'concepts'), os.path.join(d, 'concepts'),
                    ignore=shutil.ignore_patterns('__pycache__'))
    return d


def apply_mutant(d, mutant):
    edits = mutant.get('edits') or [mutant]
    for e in edits:
        path = os.path.join(d, e['file'])
        src = open(path, encoding='utf-8').read()
        if src.count(e['old']) != 1:
            raise SystemExit(f'{mutant["id"]}: old text occurs {src.count(e["old"])} times in {e["file"]}')
        open(path, 'w', encoding='utf-8').write(src.replace(e['old'], e['new']))


def apply_patch(d, patchfile):
    subprocess.run(['patch', '-p1', '-s', '-d', d, '-i', patchfile], check=True)


def run_check(d, prop, tier, seed='1'):
    env = dict(os.environ, VERIF_REPO=d, VERIF_SEED=seed, PYTHONDONTWRITEBYTECODE='1')
    p = subprocess.run([os.path.join(VERIF, 'run_check.py'), prop, '--tier', tier, '--no-evidence'],
                       cwd=VERIF, env=env, capture_output=True, text=True)
    sites = [l.strip() for l in p.stdout.splitlines() if l.startswith('  ')]
    return p.returncode, sites, p.stdout[-1500:] + p.stderr[-1500:]


RELATED = {
    'concepts/matrices.py': 'C01 C02 C03 C05 C07 C10 C11 C15 C16 C19',
    'concepts/contexts.py': 'C01 C02 C03 C05 C10 C11 C12 C14 C15 C16 C17 C18 C19',
    'concepts/lattices.py': 'C02 C03 C05 C06 C07 C09 C10 C11 C15 C17 C18 C20',
    'concepts/lattice_members.py': 'C02 C05 C06 C07 C08 C09 C10 C11 C15 C17 C18 C20',
    'concepts/algorithms/': 'C03 C04 C05 C06 C09 C15',
    'concepts/definitions.py': 'C13 C14 C15 C17',
    'concepts/tools.py': 'C09 C11 C13 C14 C17',
    'concepts/junctors.py': 'C15 C16 C17',
    'concepts/formats/': 'C11 C12 C17',
    'concepts/visualize.py': 'C17 C20',
    'concepts/_common.py': 'C04',
}


def related_checks(patchfile, own):
    import re
    files = re.findall(r'^diff --git a/(\S+)', open(patchfile).read(), flags=re.M)
    props = {own}
    for f in files:
        for prefix, names in RELATED.items():
            if f.startswith(prefix):
                props.update(names.split())
    return sorted(props)


def main():
    ap = argparse.ArgumentParser()
    ap.add_argument('--only')
    ap.add_argument('--checks')
    ap.add_argument('--tier', default='quick')
    ap.add_argument('--seeded', action='store_true', help='run seeded/<id>/patch.diff instead of the catalogue')
    ap.add_argument('--all-checks', action='store_true')
    ap.add_argument('--related', action='store_true', help='run the checks whose property exercises the files the patch touches')
    ap.add_argument('--seed', default='1')
    ap.add_argument('--base', default='seeded', help='directory of <id>/patch.diff + meta.json (seeded, refactorings)')
    ap.add_argument('--out', default=os.path.join(VERIF, 'mutants', 'RESULTS.json'))
    args = ap.parse_args()

    if args.seeded:
        items = []
        base = os.path.join(VERIF, args.base)
        for name in sorted(os.listdir(base)):
            meta = json.load(open(os.path.join(base, name, 'meta.json')))
            items.append({'id': name, 'property': meta['property'], 'patch': os.path.join(base, name, 'patch.diff'),
                          'expected': 'detect'})
    else:
        items = json.load(open(os.path.join(VERIF, 'mutants', 'catalogue.json')))
    if args.only:
        keep = set(args.only.split(','))
        items = [m for m in items if m['id'] in keep]

    results = {}
    if os.path.exists(args.out):
        results = json.load(open(args.out))
    allchecks = sorted(f[:-3].upper() for f in os.listdir(os.path.join(VERIF, 'checks'))
                       if f.startswith('c') and f[1:3].isdigit())
    for m in items:
        d = scratch_copy()
        try:
            if 'patch' in m:
                apply_patch(d, m['patch'])
            else:
                apply_mutant(d, m)
            if args.checks:
                props = args.checks.split(',')
            elif args.all_checks:
                props = allchecks
            elif args.related:
                props = related_checks(m['patch'], m['property'])
            else:
                props = [m['property']] + list(m.get('also', []))
            row = results.setdefault(m['id'], {})
            for prop in props:
                if prop not in allchecks:
                    row[prop] = 'no-check'
                    continue
                rc, sites, tail = run_check(d, prop, args.tier, args.seed)
                row[prop] = {0: 'green', 1: 'VIOLATION', 2: 'harness-error'}.get(rc, f'rc{rc}')
                print(f'{m["id"]:28s} {prop} {row[prop]:10s} {"; ".join(s[:70] for s in sites[:2])}')
                if rc == 2:
                    print(tail)
                sys.stdout.flush()
        finally:
            shutil.rmtree(d, ignore_errors=True)
        json.dump(results, open(args.out, 'w'), indent=1, sort_keys=True)


if __name__ == '__main__':
    main()
