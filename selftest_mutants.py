#!/venv/bin/python
"""Sensitivity run: apply catalogue mutants / seeded patches to a scratch copy and run checks on it.

usage: selftest_mutants.py [--only ID[,ID]] [--checks C03,C05] [--tier quick] [--suite]

Scratch copies live under /var/tmp (outside /repo and /verif) and are removed right after use.
Results are appended to mutants/RESULTS.json (machine) - RESULTS.md is written by --report.
"""

import argparse
import json
import os
import shutil
import subprocess
import sys
import tempfile

VERIF = os.path.dirname(os.path.abspath(__file__))
REPO = '/repo'


def scratch_copy():
    d = tempfile.mkdtemp(prefix='concepts-mut-', dir='/var/tmp')
    shutil.copytree(os.path.join(REPO, 'concepts'), os.path.join(d, 'concepts'),
                    ignore=shutil.ignore_patterns('__pycache__'))
    return d


def apply_mutant(d, mutant):
    edits = mutant.get('edits') or [mutant]
    for e in edits:
        path = os.path.join(d, e['file'])
        src = open(path, encoding='utf-8').read()
        if src.count(e['old']) != 1:
            raise SystemExit(f'{mutant["id"]}: old text occurs {src.count(e["old"])} times in {e["file"]}')
        open(path, 'w', encoding='utf-8').write(src.replace(e['old'], e['new']))


def apply_patch(d, patchfile):
    subprocess.run(['patch', '-p1', '-s', '-d', d, '-i', patchfile], check=True)


def run_check(d, prop, tier, seed='1'):
    env = dict(os.environ, VERIF_REPO=d, VERIF_SEED=seed, PYTHONDONTWRITEBYTECODE='1')
    p = subprocess.run([os.path.join(VERIF, 'run_check.py'), prop, '--tier', tier, '--no-evidence'],
                       cwd=VERIF, env=env, capture_output=True, text=True)
    sites = [l.strip() for l in p.stdout.splitlines() if l.startswith('  ')]
    return p.returncode, sites, p.stdout[-1500:] + p.stderr[-1500:]


def main():
    ap = argparse.ArgumentParser()
    ap.add_argument('--only')
    ap.add_argument('--checks')
    ap.add_argument('--tier', default='quick')
    ap.add_argument('--seeded', action='store_true', help='run seeded/<id>/patch.diff instead of the catalogue')
    ap.add_argument('--all-checks', action='store_true')
    ap.add_argument('--seed', default='1')
    ap.add_argument('--base', default='seeded', help='directory of <id>/patch.diff + meta.json (seeded, refactorings)')
    ap.add_argument('--out', default=os.path.join(VERIF, 'mutants', 'RESULTS.json'))
    args = ap.parse_args()

    if args.seeded:
        items = []
        base = os.path.join(VERIF, args.base)
        for name in sorted(os.listdir(base)):
            meta = json.load(open(os.path.join(base, name, 'meta.json')))
            items.append({'id': name, 'property': meta['property'], 'patch': os.path.join(base, name, 'patch.diff'),
                          'expected': 'detect'})
    else:
        items = json.load(open(os.path.join(VERIF, 'mutants', 'catalogue.json')))
    if args.only:
        keep = set(args.only.split(','))
        items = [m for m in items if m['id'] in keep]

    results = {}
    if os.path.exists(args.out):
        results = json.load(open(args.out))
    allchecks = sorted(f[:-3].upper() for f in os.listdir(os.path.join(VERIF, 'checks'))
                       if f.startswith('c') and f[1:3].isdigit())
    for m in items:
        d = scratch_copy()
        try:
            if 'patch' in m:
                apply_patch(d, m['patch'])
            else:
                apply_mutant(d, m)
            if args.checks:
                props = args.checks.split(',')
            elif args.all_checks:
                props = allchecks
            else:
                props = [m['property']] + list(m.get('also', []))
            row = results.setdefault(m['id'], {})
            for prop in props:
                if prop not in allchecks:
                    row[prop] = 'no-check'
                    continue
                rc, sites, tail = run_check(d, prop, args.tier, args.seed)
                row[prop] = {0: 'green', 1: 'VIOLATION', 2: 'harness-error'}.get(rc, f'rc{rc}')
                print(f'{m["id"]:28s} {prop} {row[prop]:10s} {"; ".join(s[:70] for s in sites[:2])}')
                if rc == 2:
                    print(tail)
                sys.stdout.flush()
        finally:
            shutil.rmtree(d, ignore_errors=True)
        json.dump(results, open(args.out, 'w'), indent=1, sort_keys=True)


if __name__ == '__main__':
    main()
