#!/venv/bin/python
"""MANIFEST.setup_cmd: make sure hypothesis (and optionally atheris) import; install offline into .deps if not."""
import importlib
import os
import subprocess
import sys

VERIF = os.path.dirname(os.path.abspath(__file__))
DEPS = os.path.join(VERIF, '.deps')
WHEELS = '/opt/veriftools/wheels'


def have(mod):
    sys.path.insert(0, DEPS)
    try:
        importlib.import_module(mod)
        return True
    except Exception:
        return False
    finally:
        sys.path.remove(DEPS)


def install(pkg):
    os.makedirs(DEPS, exist_ok=True)
    return subprocess.call([sys.executable, '-m', 'pip', 'install', '--no-index', '--find-links', WHEELS,
                            '--target', DEPS, '--quiet', pkg]) == 0


if not have('hypothesis'):
    if not install('hypothesis'):
        sys.exit('cannot install hypothesis offline')
if '--with-atheris' in sys.argv and not have('atheris'):
    install('atheris')  # optional deepening only
for d in ('evidence', 'replays'):
    os.makedirs(os.path.join(VERIF, d), exist_ok=True)
print('setup ok: hypothesis', 'atheris' if have('atheris') else '(no atheris)')
