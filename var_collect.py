#!/venv/bin/python
"""Take a sub-agent's *variation* (a change of behaviour the property does not constrain) from its scratch worktree,
confirm it independently, store it under variations/.

usage: var_collect.py C08 --what "one line per variation" [--src /tmp/var-c08] [--id V08]

Confirmation (in a fresh scratch worktree of /repo under /tmp, removed afterwards):
  1. the patch applies to /repo HEAD and touches only concepts/;
  2. the unedited pinned suite passes with it (301 passed);
  3. the observation script prints something different with and without the patch (the change is observable).
Whether the property still holds is NOT decided here: the checks are run on it afterwards (selftest_mutants.py
--seeded --base variations) and every alarm is classified by hand (DESIGN.md 10.8).
"""
import argparse
import json
import os
import re
import shutil
import subprocess

VERIF = os.path.dirname(os.path.abspath(__file__))


def sh(cmd, cwd=None, env=None, check=False):
    p = subprocess.run(cmd, cwd=cwd, env=env, capture_output=True, text=True, shell=isinstance(cmd, str))
    if check and p.returncode:
        raise SystemExit(f'{cmd} failed:\n{p.stdout}\n{p.stderr}')
    return p


def main():
    ap = argparse.ArgumentParser()
    ap.add_argument('prop')
    ap.add_argument('--src')
    ap.add_argument('--id')
    ap.add_argument('--what', default='')
    args = ap.parse_args()
    prop = args.prop.upper()
    src = args.src or f'/tmp/var-c{prop[1:]}'
    vid = args.id or f'V{prop[1:]}'
    dest = os.path.join(VERIF, 'variations', vid)
    os.makedirs(dest, exist_ok=True)

    diff = sh(['git', '-C', src, 'diff'], check=True).stdout
    if not diff.strip():
        raise SystemExit('empty diff')
    files = re.findall(r'^diff --git a/(\S+)', diff, flags=re.M)
    if not all(f.startswith('concepts/') for f in files):
        raise SystemExit(f'patch touches files outside concepts/: {files}')
    open(os.path.join(dest, 'patch.diff'), 'w').write(diff)
    script = f'observe_{prop}.py'
    shutil.copy(os.path.join(src, script), os.path.join(dest, script))

    wt = f'/tmp/verify-{vid.lower()}'
    sh(['git', '-C', '/repo', 'worktree', 'remove', '--force', wt])
    sh(['git', '-C', '/repo', 'worktree', 'add', '-q', '--detach', wt, 'HEAD'], check=True)
    try:
        env = dict(os.environ, PYTHONPATH=wt, PYTHONDONTWRITEBYTECODE='1', PYTHONHASHSEED='0')
        shutil.copy(os.path.join(dest, script), os.path.join(wt, script))
        clean = sh(['/venv/bin/python', script], cwd=wt, env=env)
        sh(['git', '-C', wt, 'apply', os.path.join(dest, 'patch.diff')], check=True)
        changed = sh(['/venv/bin/python', script], cwd=wt, env=env)
        suite = sh('/venv/bin/python -m pytest -q -p no:cacheprovider 2>&1 | tail -1', cwd=wt, env=env)
    finally:
        sh(['git', '-C', '/repo', 'worktree', 'remove', '--force', wt])
        shutil.rmtree(wt, ignore_errors=True)
    suite_line = suite.stdout.strip()
    observable = (clean.stdout, clean.returncode) != (changed.stdout, changed.returncode)
    ok = observable and suite_line.startswith('301 passed')
    meta = {
        'id': vid,
        'property': prop,
        'kind': 'variation of behaviour the property statement leaves open (over-reach probe)',
        'files': files,
        'variations': args.what,
        'confirmed': {
            'repo_head': sh(['git', '-C', '/repo', 'rev-parse', '--short', 'HEAD']).stdout.strip(),
            'pinned_suite_with_patch': suite_line,
            'observe_output_differs': observable,
            'observe_without_patch_tail': clean.stdout[-400:],
            'observe_with_patch_tail': changed.stdout[-400:],
        },
        'kept': ok,
    }
    json.dump(meta, open(os.path.join(dest, 'meta.json'), 'w'), indent=1)
    print(vid, 'confirmed' if ok else 'NOT CONFIRMED', '|', suite_line, '| observable', observable)
    if not ok:
        print(clean.stderr[-500:], changed.stderr[-500:])


if __name__ == '__main__':
    main()
