"""Observable differences of the C01 variation (results of the derivations are unchanged)."""
import concepts

c = concepts.Context.fromstring(concepts.EXAMPLE)

# 1. repeated raw derivation: same object again (memoized) vs. a new equal one
a, b = c.intension(['1sg', '1pl'], raw=True), c.intension(['1pl', '1sg', '1sg'], raw=True)
print('equal:', a == b, a.members(), '| identical:', a is b)

# 2. memo introspection on the derivation operator
print('cache_info:', getattr(c._Objects.prime, 'cache_info', lambda: None)())

# 3. a raw extent fed back in (not a collection of labels: outside the quantified domain)
extent = c.extension(['+1'], raw=True)
try:
    print('intension(raw extent):', c.intension(extent))
except Exception as e:
    print('intension(raw extent):', type(e).__name__, e)

# 4. docstring of the operator
print('doc:', c._Objects.prime.__doc__)
