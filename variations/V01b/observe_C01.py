"""Observable differences of the C01 round-2 variation (the property itself is unaffected)."""
import pickle

import concepts
from concepts import contexts

c = concepts.Context.fromstring(concepts.EXAMPLE)

i = c.intension(['1sg', '1pl'])
e = c.extension(['+1', '+sg'])
# same contents, order, equality and hash in both trees ...
print('contents   :', tuple(i), tuple(e))
print('== tuple   :', i == ('+1', '-2', '-3'), e == ('1sg',), hash(i) == hash(tuple(i)))
print('== raw     :', i == c.intension(['1pl', '1sg', '1sg'], raw=True).members())
print('pickle     :', pickle.loads(pickle.dumps(i)) == i)
# ... but a different concrete container type
print('type       :', type(i).__name__, type(e).__name__, type(i) is tuple)

# the collection argument may now be omitted (= empty collection)
for name in ('intension', 'extension'):
    try:
        print(f'{name}() :', getattr(c, name)())
    except TypeError as exc:
        print(f'{name}() : TypeError: {exc}')

# class hierarchy / helper names poked by white-box tests
print('qualname   :', concepts.Context.intension.__qualname__)
print('mro        :', [k.__name__ for k in concepts.Context.__mro__ if 'Mixin' in k.__name__])
print('has PrimeMixin/DerivationMixin/Labels:',
      [hasattr(contexts, n) for n in ('PrimeMixin', 'DerivationMixin', 'Labels')])
