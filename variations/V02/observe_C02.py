"""Observable differences around concept lookup (C02) outside what the property constrains."""
import concepts

context = concepts.Context.fromstring(concepts.EXAMPLE)
lattice = context.lattice


def show(label, func):
    try:
        result = func()
    except Exception as e:
        result = f'{type(e).__name__}: {e}'
    print(f'{label}: {result!r}')


# 1. one-shot iterators of property labels
show("context[iter(['-1', '-sg'])]", lambda: context[iter(['-1', '-sg'])])
show("context[(p for p in ['+1'])]", lambda: context[(p for p in ['+1'])])
show("lattice[iter(['-1', '-sg'])]", lambda: lattice[iter(['-1', '-sg'])])
# 2. lattice() without arguments
show('lattice()', lambda: lattice())
# 3. out-of-range index message, None key
show('lattice[99]', lambda: lattice[99])
show('lattice[-99]', lambda: lattice[-99])
show('lattice[None]', lambda: lattice[None])
# unchanged in-domain lookups for reference
show("context['-1', '-sg']", lambda: context['-1', '-sg'])
show("lattice[()] is lattice.supremum", lambda: lattice[()] is lattice.supremum)
show("lattice(()) is lattice.supremum", lambda: lattice(()) is lattice.supremum)
