"""Observable differences of the C02 variation (round 2)."""
import concepts

c = concepts.Context.fromstring(concepts.EXAMPLE)
l = c.lattice

r = c['1sg', '1pl', '2pl']
print('pair value   :', r, r == (('1sg', '1pl', '2sg', '2pl'), ('-3',)))
print('pair type    :', type(r).__name__, type(r) is tuple, isinstance(r, tuple))
print('pair .extent :', getattr(r, 'extent', '<no attribute>'))
print('pair .intent :', getattr(r, 'intent', '<no attribute>'))


class Pos:
    def __init__(self, i):
        self.i = i

    def __index__(self):
        return self.i


def attempt(label, func):
    try:
        print(label, repr(func()))
    except Exception as e:
        print(label, 'raises', type(e).__name__, e)


attempt('lattice[Pos(2)]         :', lambda: l[Pos(2)])
attempt('lattice[member concept] :', lambda: l[l[3]])
other = concepts.Context.fromstring(concepts.EXAMPLE).lattice
attempt('lattice[equal-lattice concept] is own member:', lambda: l[other[5]] is l[5])
