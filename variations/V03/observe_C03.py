"""Print behaviour around Lattice iteration/len/indexing that C03 does not constrain."""
import concepts

ctx = concepts.Context.fromstring(concepts.EXAMPLE)
lattice = ctx.lattice

print('type(iter(lattice)):', type(iter(lattice)).__name__)
print('type(lattice._concepts):', type(lattice._concepts).__name__)
print('type(lattice[1:3]):', type(lattice[1:3]).__name__)
try:
    lattice[len(lattice)]
except IndexError as e:
    print('out-of-range index:', type(e).__name__, '-', e)
print('lattice[-1] is supremum:', lattice[-1] is lattice.supremum)
c = lattice['+1',]
print('concept in lattice:', c in lattice)
print('(extent, intent) pair in lattice:', (c.extent, c.intent) in lattice)
print('non-concept pair in lattice:', (('1sg', '1pl'), ('+1',)) in lattice)
print('unknown names pair in lattice:', (('nope',), ()) in lattice)
other = concepts.Context.fromstring(concepts.EXAMPLE).lattice
print('concept of another lattice in lattice:', other['+1',] in lattice)
print('has __contains__:', '__contains__' in dir(type(lattice)))
# what C03 is about (must be identical before/after)
pairs = [(c.extent, c.intent) for c in lattice]
print('len:', len(lattice), 'distinct pairs:', len(set(pairs)),
      'all closed:', all(ctx.intension(a) == b and ctx.extension(b) == a for a, b in pairs))
