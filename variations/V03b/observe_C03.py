"""Observable differences of the C03 variation (round 2)."""
import concepts
from concepts import lattice_members

# 1. class of the only concept of a one-element lattice
ctx = concepts.Context(['a', 'b'], ['p', 'q'], [(True, True), (True, True)])
lattice = ctx.lattice
only, = lattice
print('one-element lattice:', len(lattice), repr(only))
print('  class:', type(only).__name__,
      'mro:', [k.__name__ for k in type(only).__mro__
               if k.__name__ in ('Unit', 'Infimum', 'Supremum', 'Concept')])
print('  isinstance Infimum/Supremum:',
      isinstance(lattice.infimum, lattice_members.Infimum),
      isinstance(lattice.supremum, lattice_members.Supremum))
print('  minimal():', only.minimal())

# 2. iterating a concept (pair unpacking): kind of iterator
big = concepts.Context.fromstring(concepts.EXAMPLE).lattice
concept = big['+1',]
print('iter(concept):', type(iter(concept)).__name__, tuple(concept))


# 3. lattice[key] with a non-int object implementing __index__
class Idx:
    def __init__(self, i):
        self.i = i

    def __index__(self):
        return self.i


for key in (Idx(0), Idx(-1), Idx(7)):
    try:
        print('lattice[Idx(%d)]:' % key.i, big[key])
    except Exception as e:
        print('lattice[Idx(%d)]:' % key.i, type(e).__name__)
