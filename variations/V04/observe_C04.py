"""Observable differences around the concept generators (not constrained by C04)."""
import inspect

import concepts
from concepts import algorithms

ctx = concepts.Context(('A', 'B', 'C', 'D'), ('0', '1', '2', '3', '4', '5'),
                       [(1, 1, 1, 0, 0, 0), (1, 0, 1, 1, 1, 1),
                        (1, 1, 0, 0, 1, 0), (0, 1, 1, 0, 0, 0)])

print('__all__:', sorted(algorithms.__all__))
print('iterconcepts() returns:', type(algorithms.iterconcepts(ctx)).__name__)
for func in (algorithms.fast_generate_from, algorithms.fcbo_dual):
    print(func.__name__, 'is generator function:', inspect.isgeneratorfunction(func),
          '| yields:', type(next(func(ctx))).__name__)
for func in (algorithms.iterconcepts, algorithms.get_concepts):
    print(func.__name__, 'signature:', inspect.signature(func))
    try:
        result = list(func(ctx, dual=True))
    except TypeError as e:
        print('  dual=True ->', type(e).__name__, e)
    else:
        print('  dual=True -> first concept', str(result[0]))
for func in (algorithms.fast_generate_from, algorithms.fcbo_dual):
    try:
        it = func(None)  # out of domain: not a context
    except Exception as e:
        print(func.__name__, '(None) raises at call:', type(e).__name__, e)
    else:
        try:
            next(it)
        except Exception as e:
            print(func.__name__, '(None) raises at first next():', type(e).__name__, e)
