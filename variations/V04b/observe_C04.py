"""Observable differences of the C04 round-2 variation (none constrained by C04)."""
import concepts
from concepts import algorithms

context = concepts.make_context('''
 |0|1|2|3|4|5|
A|X|X|X| | | |
B|X| |X|X|X|X|
C|X|X| | |X| |
D| |X|X| | | |''')


def show(pairs):
    return [(''.join(e.members()), ''.join(i.members())) for e, i in pairs]


# 1. order of the list returned by get_concepts()
listed = show(algorithms.get_concepts(context))
print('get_concepts order      :', [e for e, _ in listed])
print('  == iterconcepts order :', listed == show(algorithms.iterconcepts(context)))
print('  == lattice order      :',
      listed == show((c._extent, c._intent) for c in context.lattice))
print('  same set as generators:',
      set(listed) == set(show(algorithms.fast_generate_from(context)))
      == set(show(algorithms.fcbo_dual(context)))
      and len(listed) == len(set(listed)))

# 2. return value of the exhausted generators (StopIteration.value)
for func in (algorithms.fast_generate_from, algorithms.fcbo_dual):
    gen = func(context)
    try:
        while True:
            next(gen)
    except StopIteration as e:
        print(f'{func.__name__} StopIteration.value:', e.value)

# 3. a Definition (not a context) as argument
definition = context.definition()
for func in (algorithms.fast_generate_from, algorithms.fcbo_dual,
             algorithms.iterconcepts, algorithms.get_concepts):
    try:
        result = f'{len(list(func(definition)))} concepts'
    except Exception as e:
        result = type(e).__name__
    print(f'{func.__name__}(definition):', result)

# 4. new public helper
print('algorithms.as_context:', hasattr(algorithms, 'as_context'))
