"""Observe the C05 variation: order of Context.neighbors(); read-only neighbor attributes."""
import concepts

context = concepts.Context.fromstring(concepts.EXAMPLE)

print('neighbors order:')
for objects in (['1sg', '2sg'], ['1pl', '2pl']):
    print(' ', objects, [extent for extent, _ in context.neighbors(objects)])

concept = context.lattice['+1',]
print('instance attributes:', sorted(k for k in vars(concept) if 'neighbors' in k))
print('class attribute:', type(getattr(type(concept), 'upper_neighbors', None)).__name__)
try:
    concept.upper_neighbors = concept.upper_neighbors
except AttributeError as e:
    print('assignment:', type(e).__name__)
else:
    print('assignment: ok')
