"""Observable differences of the C05 (round 2) variation."""
import inspect

import concepts

context = concepts.Context.fromstring(concepts.EXAMPLE)
lattice = context.lattice
c = lattice['+1',]

# 1. concrete container type of the neighbor links
print('type(upper_neighbors):', type(c.upper_neighbors).__name__)
print('type(lower_neighbors):', type(c.lower_neighbors).__name__)
print('type(lattice.atoms):', type(lattice.atoms).__name__)
print('type is tuple:', type(c.upper_neighbors) is tuple,
      '/ isinstance tuple:', isinstance(c.upper_neighbors, tuple))
print('type(upper_neighbors[:1]):', type(c.upper_neighbors[:1]).__name__)
print('has concepts.lattice_members.Neighbors:',
      hasattr(concepts.lattice_members, 'Neighbors'))

# 2. Context.neighbors() without argument
try:
    print('context.neighbors():', [e for e, _ in context.neighbors()])
except TypeError as e:
    print('context.neighbors(): TypeError', e)

# 3. evaluation strategy of the raw neighbor computation
raw = context._neighbors(context._Objects.frommembers(['1sg']).double())
print('_neighbors is generator:', inspect.isgenerator(raw),
      '/', type(raw).__name__)
