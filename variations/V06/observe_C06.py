"""Observable differences near property C06 that the property does not constrain."""
import concepts

ctx = concepts.Context(('z', 'a', 'm'), ('p', 'q'),
                       [(True, False), (True, True), (False, True)])
lat = ctx.lattice

print('type(iter(lattice))      :', type(iter(lat)).__name__)
print('type(reversed(lattice))  :', type(reversed(lat)).__name__)
print('type(lattice._concepts)  :', type(lat._concepts).__name__)
print('type(lattice[1:3])       :', type(lat[1:3]).__name__)
print('own __contains__         :', '__contains__' in vars(type(lat)).keys()
      or any('__contains__' in vars(k) for k in type(lat).__mro__[:-1]))
print('lattice[1] in lattice    :', lat[1] in lat)
try:
    lat[len(lat)]
except IndexError as e:
    print('out-of-range error       :', type(e).__name__, '-', e)
# what the property speaks about (same before and after)
print('order                    :', [c.extent for c in lat])
print('index/dindex             :', [(c.index, c.dindex) for c in lat])
