"""Observable differences of the C06 round-2 variation (none constrained by C06)."""
import concepts

ctx = concepts.Context(('z', 'm', 'a', 'k'), ('p', 'q', 'r'),
                       [(True, False, True), (True, True, False),
                        (False, True, True), (True, False, False)])
lattice = ctx.lattice
c = lattice[2]

# 1. concrete container type / identity of the neighbor tuples and lattice.atoms
print('type(upper_neighbors) is tuple:', type(c.upper_neighbors) is tuple)
print('type(lower_neighbors) is tuple:', type(c.lower_neighbors) is tuple)
print('upper_neighbors type name:', type(c.upper_neighbors).__name__)
print('has .indexes:', hasattr(c.upper_neighbors, 'indexes'))
print('type(lattice.atoms) is tuple:', type(lattice.atoms) is tuple)
print('atoms is infimum.upper_neighbors:', lattice.atoms is lattice.infimum.upper_neighbors)
print('atoms == infimum.upper_neighbors:', lattice.atoms == lattice.infimum.upper_neighbors)

# 2. dindex evaluation strategy: eager instance attribute vs. assigned on first access
fresh = concepts.Context(ctx.objects, ctx.properties, ctx.bools).lattice
print('dindex in vars() before access:', 'dindex' in vars(fresh[2]))
print('dindex value:', fresh[2].dindex)
print('dindex in vars() after access:', 'dindex' in vars(fresh[2]))


# 3. integer-like (non-int) index keys
class Idx:
    def __init__(self, i):
        self.i = i

    def __index__(self):
        return self.i


try:
    print('lattice[Idx(2)] is lattice[2]:', lattice[Idx(2)] is lattice[2])
except Exception as e:
    print('lattice[Idx(2)] raises', type(e).__name__)
