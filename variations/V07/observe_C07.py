"""Observable differences of the C07 variation (all outside the property's domain)."""
import concepts

ctx = concepts.Context.fromstring(concepts.EXAMPLE)
lat = ctx.lattice
other = concepts.Context.fromstring(concepts.EXAMPLE).lattice  # equal, but another lattice
a, b, c = lat['+1',], lat['+2',], lat['+3',]


def show(label, func):
    try:
        result = repr(func())
    except Exception as e:
        bases = [k.__name__ for k in type(e).__mro__[:-3]]
        result = f'raises {"/".join(bases)}: {e}'
    print(f'{label:34}: {result}')


show('concept | 3', lambda: a | 3)
show('concept & None', lambda: a & None)
show('concept.join(3)', lambda: a.join(3))
show('concept.join(b, c)  (variadic)', lambda: a.join(b, c))
show('concept.meet(b, c)  (variadic)', lambda: a.meet(b, c))
show('lattice.join([a, 3])', lambda: lat.join([a, 3]))
show('lattice.join(a)  (not a list)', lambda: lat.join(a))
show('lattice.join([a, foreign])', lambda: lat.join([a, other['+2',]]))
show('lattice.meet([a, foreign])', lambda: lat.meet([a, other['-2',]]))
show('concept | foreign', lambda: a | other['+2',])
show('concept & foreign', lambda: a & other['-2',])
import concepts.lattice_members as lm
show('has ForeignConceptError', lambda: hasattr(lm, 'ForeignConceptError'))
