"""Observable differences of the C07 round-2 variation (results of join/meet are unchanged)."""
import concepts
from concepts import lattices

lattice = concepts.Context.fromstring(concepts.EXAMPLE).lattice
a, b = lattice['+1',], lattice['+2',]

# 1. class hierarchy: misspelled mixin renamed (alias kept)
print('mixins in MRO:', [c.__name__ for c in lattices.Lattice.__mro__ if 'Aggr' in c.__name__])
print('has AggregationMixin:', hasattr(lattices, 'AggregationMixin'))

# 2. a bare concept (not wrapped in a collection) as argument
for name in ('join', 'meet'):
    try:
        print(f'lattice.{name}(concept):', getattr(lattice, name)(a))
    except Exception as e:
        print(f'lattice.{name}(concept): raises {type(e).__name__}')

# 3. lazy consumption: iteration stops once the result can no longer change
def consumed(method, items):
    it = iter(items)
    result = method(it)
    return result, len(list(items)) - len(list(it))

items = [lattice.supremum, a, b, a]
print('join consumed %d of 4 items ->' % consumed(lattice.join, items)[1], consumed(lattice.join, items)[0])
items = [lattice.infimum, a, b, a]
print('meet consumed %d of 4 items ->' % consumed(lattice.meet, items)[1], consumed(lattice.meet, items)[0])

# 4. internal algorithm: binary join/meet no longer call the double derivation
extents = lattice._context._extents
calls = []
original = extents.double
extents.double = lambda bitset: calls.append(bitset) or original(bitset)
try:
    results = (a | b, a & b, a.join(b), a.meet(b))
finally:
    extents.double = original
print('calls of _extents.double for 4 binary operations:', len(calls))
print('results:', *results, sep='\n  ')
