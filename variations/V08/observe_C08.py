"""Observable differences for the C08 variation (out-of-domain operands, result types)."""
import concepts

lattice = concepts.Context.fromstring(concepts.EXAMPLE).lattice
c, d = lattice['+1',], lattice['+3',]


def show(label, func):
    try:
        result = func()
    except Exception as e:  # noqa
        print(f'{label}: raises {type(e).__name__}: {e}')
    else:
        print(f'{label}: {type(result).__name__} {bool(result)}')


# 1. result type where only truthiness is specified
show('subcontrary_with (disjoint extents)', lambda: c.subcontrary_with(d))
show('subcontrary_with (true case)', lambda: lattice['-1',].subcontrary_with(lattice['-3',]))
# 2. operands that are not concepts (outside the quantified domain)
for name in ('implies', 'subsumes', 'properly_implies', 'properly_subsumes',
             'incompatible_with', 'complement_of', 'subcontrary_with', 'orthogonal_to'):
    show(f'{name}(42)', lambda: getattr(c, name)(42))
show('c <= 42', lambda: c <= 42)
show('c > None', lambda: c > None)
show("c >= ('1sg',)", lambda: c >= ('1sg',))
# 3. operator methods are now distinct functions from the named methods
cls = type(c)
print('__le__ is implies:', cls.__le__ is cls.implies)
