"""Observable differences of variation round 2 for C08 (none touches the property)."""
import concepts

lattice = concepts.Context.fromstring(concepts.EXAMPLE).lattice
x, y = lattice['+1',], lattice['-3',]

# 1. 'other' is positional-only in the eight predicates
for name in ('implies', 'subsumes', 'properly_implies', 'properly_subsumes',
             'incompatible_with', 'complement_of', 'subcontrary_with',
             'orthogonal_to'):
    try:
        result = getattr(x, name)(other=y)
    except TypeError as e:
        result = f'TypeError: {e}'
    print(f'x.{name}(other=y) ->', result)

# 2. order predicates are evaluated on the intents: visible only with
#    operands from DIFFERENT lattices (outside the property's domain)
a = concepts.Context(('o1', 'o2', 'o3'), ('p', 'q'),
                     [(True, False), (True, True), (False, True)]).lattice
b = concepts.Context(('o1', 'o2', 'o3'), ('r', 's', 't'),
                     [(True, False, False), (True, True, False),
                      (True, True, True)]).lattice
ca, cb = a['p',], b['r', 's']
print('cross-lattice', ca, '|', cb)
print('  <= ', ca <= cb, ' >= ', ca >= cb, ' < ', ca < cb, ' > ', ca > cb)

# 3. upset()/downset() return an eagerly computed iterator, not a generator
print('upset type  :', type(x.upset()).__name__)
print('downset type:', type(x.downset()).__name__)
print('upset       :', [c.index for c in x.upset()])
print('downset     :', [c.index for c in x.downset()])
