"""Observable differences of the C09 variation (run on pristine and changed tree)."""
import concepts

l1 = concepts.Context.fromstring(concepts.EXAMPLE).lattice
l2 = concepts.Context.fromstring(concepts.EXAMPLE).lattice  # equal but distinct lattice


def show(label, func):
    try:
        result = func()
    except Exception as e:
        print(f'{label}: raises {type(e).__name__}: {e}')
    else:
        print(f'{label}: {result!r}')


# 1. concepts of a different lattice (outside the domain of the property)
show('foreign upset_union call', lambda: type(l1.upset_union([l2['+1',]])).__name__)
show('foreign upset_union items',
     lambda: [c.lattice is l1 for c in l1.upset_union([l2['+1',]])])
show('foreign downset_union items',
     lambda: [c.lattice is l1 for c in l1.downset_union([l1['+1',], l2['+2',]])])

# 2. non-concept members
show('None member call', lambda: type(l1.upset_union([None])).__name__)
show('None member items', lambda: list(l1.downset_union([None])))

# 3. a single concept instead of a collection
show('single concept upset_union',
     lambda: [c.index for c in l1.upset_union(l1['+1',])])
show('single concept downset_union',
     lambda: [c.dindex for c in l1.downset_union(l1['+1',])])

# 4. internal route: the pending heap never holds a concept twice
gen = l1.infimum.upset()
res, most = [], 0
for c in gen:
    res.append(c.index)
    most = max(most, len(gen.gi_frame.f_locals['heap']))
print('infimum.upset() indexes ok:', res == list(range(len(l1))),
      '- largest pending heap:', most)
