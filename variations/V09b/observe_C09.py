"""Observable differences of the C09 variation (round 2); the property itself is unaffected."""
import inspect
import operator

import concepts

lattice = concepts.Context.fromstring(concepts.EXAMPLE).lattice
c = lattice['+1',]

results = {'upset': c.upset(), 'downset': c.downset(),
           'upset_union': lattice.upset_union([c, lattice['+2',]]),
           'downset_union': lattice.downset_union([c, lattice['+2',]]),
           'upset_union([])': lattice.upset_union([])}

for name, it in results.items():
    print(name, 'type:', type(it).__name__,
          '| isgenerator:', inspect.isgenerator(it),
          '| has send/close:', hasattr(it, 'send'), hasattr(it, 'close'),
          '| length_hint:', operator.length_hint(it, -1),
          '| iter(it) is it:', iter(it) is it)

it = c.upset()
next(it)
print('repr after one next():', repr(it).split(' at 0x')[0])

for func in (type(c).upset, type(c).downset,
             type(lattice).upset_union, type(lattice).downset_union):
    print(func.__name__, 'parameters:', list(inspect.signature(func).parameters))

try:
    list(c.upset(_sortkey=operator.attrgetter('index')))
except TypeError as e:
    print('private keyword: TypeError')
else:
    print('private keyword: accepted')

# eager vs. lazy: when are the neighbours read?
try:
    bad = lattice.upset_union(['not a concept'])
except AttributeError:
    print('non-concept member: AttributeError at call time')
else:
    print('non-concept member: no error until first next()')

print('algorithms.closure exists:', hasattr(concepts.algorithms, 'closure'))

# what the property speaks of: unchanged
print([x.index for x in c.upset()], [x.dindex for x in c.downset()])
print([x.index for x in lattice.upset_union([c, c, lattice.supremum, lattice['+2',]])],
      [x.dindex for x in lattice.downset_union([c, c, lattice.infimum, lattice['+2',]])],
      list(lattice.upset_union([])), list(lattice.downset_union(())))
