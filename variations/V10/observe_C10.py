"""Observable differences of the C10 variation (labels/atoms bookkeeping)."""
import concepts

c = concepts.Context(('a', 'b', 'c', 'd'), ('p', 'q', 'r', 'e'),
                     [(True, True, False, False),
                      (True, True, False, False),   # duplicate row
                      (True, True, True, False),
                      (False, False, True, False)])  # 'e' empty column
l = c.lattice
for x in l:
    print(x.index, sorted(k for k in vars(x) if k in ('objects', 'properties')),
          repr(x.objects), repr(x.properties))
print('Lattice._annotate doc:', concepts.lattices.Lattice._annotate.__doc__.splitlines()[0])
for name, arg in (('object_concept', 'b'), ('attribute_concept', 'e')):
    meth = getattr(l, name, None)
    print(name, meth(arg) if meth is not None else 'n/a')
