"""Observable differences of the C10 variation (round 2); contents/orders are unchanged."""
import inspect
import concepts

context = concepts.Context(('a', 'b', 'c'), ('p', 'q', 'r'),
                           [(True, True, False), (True, True, False), (False, True, True)])
lattice = context.lattice
c = lattice[('p',)]

# contents (identical before and after)
print('labels  ', [(tuple(x.objects), tuple(x.properties)) for x in lattice])
print('atoms   ', [[a.index for a in x.atoms] for x in lattice])
print('downset ', [x.index for x in c.downset()], 'upset', [x.index for x in c.upset()])

# incidental features (differ)
fresh = concepts.Context(context.objects, context.properties, context.bools).lattice[('p',)]
print("'atoms' in vars(concept) before first access:", 'atoms' in vars(fresh))
fresh.atoms
print("'atoms' in vars(concept) after first access: ", 'atoms' in vars(fresh))
print('hasattr(Concept, "atoms"):', hasattr(concepts.lattices.Concept, 'atoms'))
print('type of label containers:', type(c.objects).__name__, type(c.properties).__name__,
      type(lattice.supremum.objects).__name__,
      '| isinstance tuple:', isinstance(c.objects, tuple), '| == tuple:', c.objects == ('a', 'b'))
print('downset()/upset() result type:', type(c.downset()).__name__, type(c.upset()).__name__,
      '| isgenerator:', inspect.isgenerator(c.downset()))
print('downset signature:', inspect.signature(c.downset), 'upset signature:', inspect.signature(c.upset))
