"""Observable differences around structured persistence (C11) that the property does not constrain."""
import inspect
import pickle

import concepts

ctx = concepts.Context.fromstring(concepts.EXAMPLE)
d = ctx.todict()


def attempt(label, **changes):
    bad = dict(d, **changes)
    try:
        result = concepts.Context.fromdict(bad)
        if 'lattice' in changes:
            result = [c.index for c in result.lattice[1].upper_neighbors]
        print(f'{label}: no error -> {result!r}')
    except Exception as e:
        mro = [c.__name__ for c in type(e).__mro__[:-3]]
        print(f'{label}: {mro} {e}')


# 1. malformed table: exception class and message detail
bad = {k: v for k, v in d.items() if k != 'context'}
try:
    concepts.Context.fromdict(bad)
except ValueError as e:
    print('missing key:', type(e).__name__, e)
attempt('invalid table index', context=[(42,) + d['context'][0][1:]] + d['context'][1:])
attempt('duplicated table index', context=[(0, 0)] + d['context'][1:])
attempt('empty lattice', lattice=[])

# 2. malformed lattice (outside the domain of C11): now validated
first = d['lattice'][1]
attempt('negative neighbor index', lattice=[d['lattice'][0], first[:2] + ((-1,), first[3])] + d['lattice'][2:])
attempt('neighbor index out of range', lattice=[d['lattice'][0], first[:2] + ((99,), first[3])] + d['lattice'][2:])
attempt('triple instead of quadruple', lattice=[d['lattice'][0][:3]] + d['lattice'][1:])

# 3. pickle state of a context
state = ctx.__getstate__()
print('Context.__getstate__():', type(state).__name__, sorted(state) if isinstance(state, dict) else len(state))
print('unpickled equal:', pickle.loads(pickle.dumps(ctx)) == ctx)

# 4. tojson signature
print('tojson parameters:', list(inspect.signature(concepts.Context.tojson).parameters))
