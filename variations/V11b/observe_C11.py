"""Print behaviour that differs between the pristine tree and the C11 variation."""
import io
import os
import pickle
import tempfile

import concepts

c = concepts.Context.fromstring(concepts.EXAMPLE)
l = c.lattice

# 1. shape of the lattice pickle state
state = l.__getstate__()
print('Lattice.__getstate__ type:', type(state).__name__)
if isinstance(state, dict):
    print('  keys:', sorted(state), 'concepts[1]:', state['concepts'][1])
else:
    print('  len:', len(state), 'concepts[1]:', state[1][1])
old = type(l).__new__(type(l))
old.__setstate__((c, l._tolist()))  # the state tuple of earlier versions
print('earlier (context, index-tuples) state loads:', old._eq(l),
      '| pickle roundtrip equivalent:', pickle.loads(pickle.dumps(l))._eq(l))

# 2. tojson to a path: last character of the file
with tempfile.TemporaryDirectory() as d:
    path = os.path.join(d, 'c.json')
    c.tojson(path)
    with open(path, encoding='utf-8') as f:
        text = f.read()
    print('json file ends with newline:', text.endswith('\n'))
    print('json file reloads equal:', concepts.Context.fromjson(path) == c)
buf = io.StringIO()
c.tojson(buf)
print('json to file object ends with newline:', buf.getvalue().endswith('\n'))

# 3. python-literal loader on input outside the format
for source in ('[1, 2]', "{'objects': ('a',)}",
               '\ufeff' + c.tostring(frmat='python-literal')):
    try:
        r = concepts.Context.fromstring(source, frmat='python-literal')
    except Exception as e:
        print('python-literal', repr(source[:20]), '->', type(e).__name__)
    else:
        print('python-literal', repr(source[:20]), '-> loaded, equal:', r == c)
