"""Print behaviour around the text formats that C12 does not constrain."""
import concepts
from concepts import formats


def show(label, func):
    try:
        result = func()
    except Exception as e:  # noqa: BLE001
        print(f'{label}: {type(e).__name__}: {e.args[0] if e.args else ""}')
    else:
        print(f'{label}: {result!r}')


# 1. messages of unknown format name / unknown suffix
show('Format[spam]', lambda: formats.Format['spam'])
show('infer_format', lambda: formats.Format.infer_format('ctx.spam'))
show('load(ctx.spam)', lambda: concepts.load('ctx.spam'))

# 2. malformed cxt text (not producible from any context)
show('cxt bad symbol', lambda: concepts.Context.fromstring(
    'B\n\n1\n2\n\no\np\nq\nXY\n', frmat='cxt'))
show('cxt bad magic', lambda: concepts.Context.fromstring(
    'C\n\n1\n2\n\no\np\nq\nX.\n', frmat='cxt'))

# 3. container types of the low-level Table.loads() result
args = formats.Table.loads(' |p|q|\no|X| |\n')
print('Table.loads types:', type(args.objects).__name__,
      type(args.properties).__name__, type(args.bools).__name__)
print('Table.loads value:', args)

# sanity: the round trip itself is unchanged
c = concepts.Context(['o', 'o 2'], ['p', 'q'], [(True, False), (False, False)])
for frmat in ('table', 'cxt', 'csv', 'python-literal'):
    assert concepts.Context.fromstring(c.tostring(frmat), frmat) == c
print('round trips ok')
