"""Observable differences of the C12 variation (round 2)."""
import concepts
from concepts import formats


def attempt(label, func):
    try:
        result = func()
    except Exception as e:  # noqa: BLE001
        print(f'{label}: raises {type(e).__name__}')
    else:
        print(f'{label}: {result!r}')


# 1. cxt loader: Burmeister context name on the second line
NAMED = 'B\nmy context\n2\n2\n\no1\no2\np1\np2\nX.\n.X\n'
attempt('cxt with name line',
        lambda: concepts.Context.fromstring(NAMED, frmat='cxt').bools)

# 2. csv loader: lowercase cross
LOWER = ',p1,p2\r\no1,x,\r\no2,,x\r\n'
attempt('csv lowercase x (sniffed)',
        lambda: concepts.Context.fromstring(LOWER, frmat='csv').bools)
attempt('csv lowercase x (bools_as_int=False)',
        lambda: concepts.Context.fromstring(LOWER, frmat='csv',
                                            bools_as_int=False).bools)
print('Csv.values[False] keys:', sorted(formats.Csv.values[False]))

# 3. registry internals of the Format metaclass
Format = formats.Format
print('has Format._map:', hasattr(Format, '_map'))
print('type(Format.by_suffix):', type(Format.by_suffix).__name__)
print('by_suffix items:', sorted(Format.by_suffix.items()))


def register():
    Format.by_suffix['.table'] = 'table'
    return Format.infer_format('spam.table')


attempt('item assignment on Format.by_suffix', register)
