"""Print behaviour around Definition editing that property C13 leaves open."""
import concepts


def fresh():
    return concepts.Definition(['a', 'b'], ['x', 'y'],
                               [(True, False), (False, True)])


def attempt(label, func):
    d = fresh()
    before = (d.objects, d.properties, d.bools)
    try:
        func(d)
    except Exception as e:
        mro = [c.__name__ for c in type(e).__mro__ if c not in (object, BaseException)]
        extra = {k: v for k, v in vars(e).items()}
        print(f'{label}: raised {"<".join(mro)}: {e} {extra or ""}')
    else:
        print(f'{label}: ok -> {d!r}')
    print('   unchanged after reject:' if (d.objects, d.properties, d.bools) == before
          else '   changed:', (d.objects, d.properties, d.bools) == before)


attempt('rename unknown object', lambda d: d.rename_object('q', 'c'))
attempt('rename object clash', lambda d: d.rename_object('a', 'b'))
attempt('rename unknown property', lambda d: d.rename_property('q', 'z'))
attempt('rename property clash', lambda d: d.rename_property('x', 'y'))
attempt('move unknown object', lambda d: d.move_object('q', 0))
attempt('move unknown property', lambda d: d.move_property('q', 0))
attempt('remove unknown object', lambda d: d.remove_object('q'))
attempt('setitem by index', lambda d: d.__setitem__(0, True))
other = concepts.Definition(['a'], ['x'], [(False,)])
attempt('union conflict', lambda d: d.union_update(other))
attempt('intersection conflict', lambda d: d.intersection_update(other))
attempt('union with plain triple',
        lambda d: d.union_update((['c'], ['x'], [(True,)])))
attempt('|= with plain triple',
        lambda d: d.__ior__((['c'], ['z'], [(True,)])))
