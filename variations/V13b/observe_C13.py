"""Print incidental features of Definition that property C13 does not constrain."""

import pickle
import types

import concepts

d = concepts.Definition(['a', 'b'], ['x', 'y'], [(True, False), (False, True)])


def attempt(func):
    try:
        return func()
    except Exception as e:
        return f'{type(e).__name__}: {e}'


# internals a white-box test might poke
print('has __dict__        :', hasattr(d, '__dict__'))
print('vars(d) keys        :', attempt(lambda: sorted(vars(d))))
print('has _pairs          :', hasattr(d, '_pairs'))
print('has _cells          :', hasattr(d, '_cells'))
print('__slots__           :', getattr(type(d), '__slots__', None))
print('set ad-hoc attribute:', attempt(lambda: setattr(d, 'note', 1)))

# iteration protocol: generator (lazy) vs. tuple iterator (snapshot)
it = iter(d)
print('iter(d) is generator:', isinstance(it, types.GeneratorType))
d.add_object('c')
print('first item of iterator created before add_object:', next(it))
d.remove_object('c')

# sized / sliceable
print('len(d)              :', attempt(lambda: len(d)))
print('d[:2]               :', attempt(lambda: d[:2]))
print('d[0], d[-1]         :', d[0], d[-1])

# pickling still round-trips (all protocols), state layout differs
for proto in (0, 2, pickle.HIGHEST_PROTOCOL):
    print(f'pickle proto {proto} roundtrip equal:',
          attempt(lambda: pickle.loads(pickle.dumps(d, proto)) == d))
print('reduce state type   :', type(d.__reduce_ex__(2)[2]).__name__)

# the triple itself is unchanged
print('triple              :', (d.objects, d.properties, d.bools))
