"""Show behaviour next to property C14 that differs after the variation."""
import copy

import concepts

a = concepts.Definition(('spam', 'eggs'), ('ni', 'nu'), [(True, False), (False, True)])
b = concepts.Definition(('ham', 'spam'), ('nu', 'ni'), [(True, True), (True, False)])

for name in ('union', 'intersection', 'union_update'):
    try:
        getattr(a.copy(), name)(b)
    except ValueError as e:
        print(name, type(e).__name__, type(e).__mro__[1].__name__, e,
              getattr(e, 'conflicts', '<no .conflicts>'))

try:
    a[0] = ('x',)
except ValueError as e:
    print('setitem', type(e).__name__, e)

c = copy.copy(a)
print('copy.copy equal:', c == a, 'distinct:', c is not a)
c['eggs', 'ni'] = True
c.add_object('bacon')
print('source changed by edit of copy.copy() result:',
      a['eggs', 'ni'], 'bacon' in a.objects)
