"""Observable differences of the C14 variation (round 2); none is constrained by the property."""
import inspect

import concepts
from concepts import Definition

d = Definition(['a', 'b'], ['x', 'y'], [(True, False), (False, True)])


def attempt(label, func):
    try:
        result = func()
    except Exception as e:
        result = f'{type(e).__name__}: {e}'
    print(f'{label}: {result}')


# 1. internals: type of the private cell store, identity after copy()
print('type(d._pairs):', type(d._pairs).__name__)
print('d.copy()._pairs is d._pairs:', d.copy()._pairs is d._pairs)
c = d.copy()
c['a', 'y'] = True
print('...but editing the copy leaves the source alone:', d['a', 'y'], c['a', 'y'])

# 2. iteration protocol: generator vs. plain iterator
print('type(iter(d)):', type(iter(d)).__name__, '/ isgenerator:', inspect.isgenerator(iter(d)))

# 3. constructor accepts arbitrary iterables for the names
attempt('Definition(generator, generator, bools)',
        lambda: Definition((o for o in 'ab'), iter('xy'), [(1, 0), (0, 1)]) == d)

# 4. union/intersection accept contexts and plain triples as other
ctx = concepts.Context(['b', 'c'], ['y', 'z'], [(True, False), (False, True)])
attempt('d.union(context)', lambda: repr(d.union(ctx)))
attempt('d & plain triple', lambda: repr(d & (('b',), ('y',), [(True,)])))
attempt('d.union(conflicting triple)', lambda: repr(d.union((('a',), ('x',), [(False,)]))))
