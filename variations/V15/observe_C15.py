"""Show what differs observably around join/meet (outside property C15)."""

import concepts
from concepts import lattice_members

lattice = concepts.Context.fromstring(concepts.EXAMPLE).lattice
other = concepts.Context(['a', 'b'], ['x', 'y'], [(1, 0), (0, 1)]).lattice
c = lattice['+1',]


def show(label, func):
    try:
        result = func()
    except Exception as e:
        bases = '/'.join(k.__name__ for k in type(e).__mro__[:-3])
        print(f'{label}: raises {bases}: {e}')
    else:
        print(f'{label}: returns {result!r}')


print('has ForeignConceptError:', hasattr(lattice_members, 'ForeignConceptError'))
print('Concept.__or__ is Concept.join:',
      lattice_members.Concept.__or__ is lattice_members.Concept.join)
show("concept.join('x')", lambda: c.join('x'))
show("concept | 'x'", lambda: c | 'x')
show("concept & None", lambda: c & None)
show('concept.join(foreign)', lambda: c.join(other[1]))
show('concept & foreign', lambda: c & other[1])
show("lattice.join(['x'])", lambda: lattice.join(['x']))
show('lattice.meet(concept)', lambda: lattice.meet(c))
show('lattice.join([foreign])', lambda: lattice.join([other[1]]))
# in-domain results are the same before and after
show('concept | concept', lambda: c | lattice['+2',])
show('concept & concept', lambda: lattice['-1', '-2'] & lattice['-pl',])
show('lattice.join([..])', lambda: lattice.join([lattice['1sg',], lattice['2sg',]]))
