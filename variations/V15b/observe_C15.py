"""Observable differences of the C15 round-2 variation (property itself unaffected)."""
import concepts

ctx = concepts.Context.fromstring(concepts.EXAMPLE)
lat = ctx.lattice

# 1. Context() accepts a lazy iterable of rows, e.g. zip(*bools) for transposing
try:
    t = concepts.Context(ctx.properties, ctx.objects, zip(*ctx.bools))
    print('Context(..., zip(*bools)):', 'accepted,', len(t.lattice), 'concepts')
except TypeError as e:
    print('Context(..., zip(*bools)):', 'TypeError:', e)

# 2. Concept.atoms is computed on first access instead of at lattice creation
c = concepts.Context.fromstring(concepts.EXAMPLE).lattice['+1',]
print("'atoms' in vars(concept) before access:", 'atoms' in vars(c))
print('atoms:', [a.extent for a in c.atoms], '| after access:', 'atoms' in vars(c))

# 3. subcontrary_with() returns a plain bool also for disjoint extents
r = lat['+1',].subcontrary_with(lat['+3',])
print('subcontrary_with ->', type(r).__mro__[-2].__name__ if not isinstance(r, bool) else 'bool', bool(r))

# 4. binary property relations compare by value (symmetric kinds unordered)
a = ctx.relations()
d = ctx.definition()
d.move_property('-pl', 0)
b = concepts.Context(*d).relations()
print('first relations:', a[0], '/', b[0], '| equal:', a[0] == b[0])
print('set(a) == set(b):', set(a) == set(b), '| hash equal:', hash(a[0]) == hash(b[0]))
