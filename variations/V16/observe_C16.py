"""Observable differences of the C16 variation (none of them constrained by C16)."""
import inspect

import concepts
from concepts import junctors

# 'a' implies 'c'; 'long_name' is orthogonal to both; 'top' is universal
context = concepts.Context(
    ('o1', 'o2', 'o3', 'o4', 'o5', 'o6'),
    ('a', 'long_name', 'c', 'top'),
    [(True, True, True, True),
     (True, False, True, True),
     (False, True, True, True),
     (False, False, True, True),
     (False, False, False, True),
     (False, True, False, True)])

r1 = context.relations(include_unary=True)
r2 = context.relations(include_unary=True)

print('entries:', list(r1))
print('1. str() left column width (orthogonal rows hidden):')
print('\n'.join(repr(line) for line in str(context.relations()).splitlines()))
print('2. tostring signature:', inspect.signature(junctors.Relations.tostring))
print('3. equal results of two calls compare equal:', r1 == r2,
      '| distinct entries in set(r1 + r2):', len(set(r1 + r2)), 'of', len(r1 + r2))
