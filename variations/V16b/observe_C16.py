"""Observable differences around Context.relations() that property C16 leaves open."""
import pickle

import concepts
from concepts import junctors

context = concepts.Context.fromstring(concepts.EXAMPLE)
rels = context.relations(include_unary=True)

# 1. instances carry an instance __dict__ or not (__slots__)
for r in (rels[0], rels[-1]):
    print(type(r).__name__, 'has __dict__:', hasattr(r, '__dict__'))
try:
    rels[-1].note = 'x'
    print('ad-hoc attribute on a relation: accepted')
except AttributeError:
    print('ad-hoc attribute on a relation: AttributeError')
print('pickle round-trip:', [str(r) for r in pickle.loads(pickle.dumps(rels))] == [str(r) for r in rels])

# 2. incidental class metadata: table position 'index' and export order, private registry name
names = ['Contradiction', 'Tautology', 'Contingency', 'Equivalent', 'Complement',
         'Incompatible', 'Implication', 'Replication', 'Subcontrary', 'Orthogonal']
print('index:', {n: getattr(junctors, n).index for n in names})
print('order:', {n: getattr(junctors, n).order for n in names})
print('__all__:', junctors.__all__)
print('registry attrs:', sorted(a for a in vars(junctors.RelationMeta)
                                if 'map' in a or 'registry' in a))

# 3. truth values that are not bool/0/1 (never produced by Context.relations())
try:
    print(junctors.Relations(['a', 'b', 'c'],
                             [('X', '', 'X'), ('', 'X', ''), ('X', 'X', None)],
                             include_unary=True))
except KeyError as e:
    print('non-bool truth values: KeyError', e)
