"""Print the error messages that the C17 variation changes (deterministic in both trees)."""
import concepts
from concepts import Context, Definition


def show(label, func):
    try:
        result = func()
    except Exception as e:
        print(f'{label}: {type(e).__name__}: {e}')
    else:
        print(f'{label}: {result!r}')


c = Context.fromstring(concepts.EXAMPLE)
d = Definition(['a', 'b'], ['x', 'y'], [(True, False), (False, True)])

show('getitem one unknown', lambda: c[('nope',)])
show('getitem two unknown', lambda: c['zzz', 'nope', 'zzz', 'aaa'])
show('getitem mixed', lambda: c['1sg', 'nope', 'other'])
show('intension unknown', lambda: c.intension(['1sg', 'q', 'p']))
show('extension unknown', lambda: c.extension(['+1', 'q', 'p']))
show('lattice getitem unknown', lambda: c.lattice[('q', 'p')])
show('duplicate objects', lambda: Context(['a', 'b', 'a', 'c', 'c'], ['x'], [(1,)] * 5))
show('duplicate properties', lambda: Context(['a'], ['x', 'y', 'y'], [(1, 1, 1)]))
show('overlap', lambda: Context(['a', 'b', 'c'], ['c', 'a', 'x'], [(1, 1, 1)] * 3))
show('definition getitem object', lambda: d['q', 'x'])
show('definition getitem property', lambda: d['a', 'q'])
show('definition getitem known', lambda: d['a', 'x'])
show('known lookup', lambda: c['1sg', '1pl'])
