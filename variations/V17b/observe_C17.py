"""Observable differences of the C17 variation (round 2)."""
import io
import inspect

import concepts

context = concepts.Context.fromstring(concepts.EXAMPLE)
lattice = context.lattice
c = lattice['+1',]

# 1. traversal results: eager list iterator vs lazy generator (same elements, same order)
for name, it in [('upset', c.upset()), ('downset', c.downset()),
                 ('upset_union', lattice.upset_union([c, lattice['+2',]])),
                 ('downset_union', lattice.downset_union([c, lattice['+2',]]))]:
    print(name, type(it).__name__, 'isgenerator=%s' % inspect.isgenerator(it),
          [x.index for x in it])

# 2. neighbor containers: tuple subclass vs plain tuple (equal to the same plain tuple)
for name, seq in [('upper_neighbors', c.upper_neighbors),
                  ('lower_neighbors', c.lower_neighbors),
                  ('concept.atoms', c.atoms), ('lattice.atoms', lattice.atoms)]:
    print(name, type(seq).__name__, 'type is tuple: %s' % (type(seq) is tuple),
          'equals plain tuple: %s' % (seq == tuple(seq)),
          'has indexes(): %s' % hasattr(seq, 'indexes'), [x.index for x in seq])

# 3. JSON text: item separator without trailing space (same data)
small = concepts.Context(['a', 'b'], ['x', 'y'], [(True, False), (True, True)])
for indent in (None, 2):
    with io.StringIO() as f:
        small.tojson(f, indent=indent, ignore_lattice=True)
        print('tojson indent=%r: %r' % (indent, f.getvalue()))
