"""Observable differences around Concept.attributes() / Concept.minimal()."""
import concepts

context = concepts.Context.fromstring(concepts.EXAMPLE)
lattice = context.lattice
concept = lattice['+1',]

# 1. attributes() is a generator method now (was: returned a genexpr)
print('qualname:', concept.attributes().__qualname__)

# 2. new optional keyword-only argument raw=
for label, call in [('attributes(raw=True)', lambda: [type(i).__mro__[1].__name__ + ':' + i.bits() for i in concept.attributes(raw=True)]),
                    ('minimal(raw=True)', lambda: concept.minimal(raw=True).bits()),
                    ('infimum.minimal(raw=True)', lambda: lattice.infimum.minimal(raw=True).bits())]:
    try:
        print(label, '->', call())
    except TypeError as e:
        print(label, '-> TypeError:', e)

# 3. private helper with an intent that does NOT belong to the extent
#    (out of domain: never happens for a concept of the lattice)
try:
    context._minimal(concept._extent, lattice.supremum._intent)
except Exception as e:
    print('_minimal mismatch ->', type(e).__name__, e)

# unchanged, for reference
print(list(concept.attributes()), concept.minimal())
