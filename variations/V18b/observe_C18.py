"""Observable differences around Concept.attributes()/minimal() (property C18 untouched)."""
import inspect

import concepts
from concepts import matrices

context = concepts.Context.fromstring(concepts.EXAMPLE)
lattice = context.lattice
concept = lattice['+1',]

# 1. concrete type/repr of the iterator returned by attributes()
it = concept.attributes()
print('attributes() type:', type(it).__name__)
print('is generator:', inspect.isgenerator(it), '| has send/close:',
      hasattr(it, 'send'), hasattr(it, 'close'))
print('repr:', repr(it) if not inspect.isgenerator(it) else '<generator object ...>')
print('contents:', list(it))

# 2. identity of repeated minimal() results and the instance __dict__
print('minimal() is minimal():', concept.minimal() is concept.minimal(),
      '| infimum:', lattice.infimum.minimal() is lattice.infimum.minimal())
print('_minimal in vars(concept):', '_minimal' in vars(concept))

# 3. evaluation strategy: number of derivation (prime) calls on property sets
calls = []
Properties = context._Properties
orig = Properties.prime
Properties.prime = lambda self: calls.append(self) or orig(self)
try:
    result = list(concept.attributes())
finally:
    Properties.prime = orig
print('intent-side prime() calls while enumerating:', len(calls), '| yielded:', len(result))
