"""Show what differs observably around Context()/fromdict validation."""
import concepts
from concepts import Context


def show(label, func):
    try:
        result = func()
    except Exception as e:
        mro = [c.__name__ for c in type(e).__mro__[:-2]]
        print(f'{label}: {"/".join(mro)}: {e}'
              f' [context={type(e.__context__).__name__}]')
    else:
        print(f'{label}: ok objects={result.objects} properties={result.properties}'
              f' bools={result.bools}')


O, P, B = ('a', 'b'), ('x', 'y'), [(True, False), (False, True)]
D = {'objects': O, 'properties': P, 'context': [(0,), (1,)]}

show('valid', lambda: Context(O, P, B))
show('valid fromdict', lambda: Context.fromdict(D))
show('empty objects', lambda: Context((), P, []))
show('duplicate objects', lambda: Context(('a', 'b', 'a'), P, B + [(1, 1)]))
show('overlap', lambda: Context(O, ('b', 'y'), B))
show('short bools', lambda: Context(O, P, B[:1]))
show('ragged bools', lambda: Context(O, P, [(True, False, True), (False, True)]))
show('dup objects + empty properties', lambda: Context(('a', 'a'), (), [(), ()]))
show('generator of rows', lambda: Context(O, P, (row for row in B)))
show('missing key', lambda: Context.fromdict({'objects': O, 'properties': P}))
show('missing lattice', lambda: Context.fromdict(D, require_lattice=True))
show('repeated index', lambda: Context.fromdict(dict(D, context=[(0,), (1, 1)])))
show('invalid index', lambda: Context.fromdict(dict(D, context=[(0,), (2,)])))
show('row count + empty lattice',
     lambda: Context.fromdict(dict(D, context=[(0,)], lattice=[])))
show('non-string + empty lattice',
     lambda: Context.fromdict(dict(D, objects=(1, 'b'), lattice=[])))
print('InvalidContext exported:', hasattr(concepts.contexts, 'InvalidContext'))
