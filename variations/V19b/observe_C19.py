"""Observable differences of the C19 round-2 variation (behaviour the statement leaves open)."""
import pickle

import concepts
from concepts import Context

ctx = Context(('a', 'b'), ('x', 'y'), [(1, 0), ([], 'yes')])

# 1. concrete container type of the name sequences (contents/equality/repr unchanged)
print('objects:', ctx.objects, '== tuple:', ctx.objects == ('a', 'b'),
      '| exact type:', type(ctx.objects).__name__, type(ctx.properties).__name__)
print('todict objects type:', type(ctx.todict()['objects']).__name__)
print('bools:', ctx.bools)
print('pickle roundtrip equal:', pickle.loads(pickle.dumps(ctx)) == ctx)

# 2. hashability of contexts
try:
    print('hash equal for equal contexts:', hash(ctx) == hash(ctx.copy()), len({ctx, ctx.copy()}))
except TypeError as e:
    print('hash:', type(e).__name__, e)


# 3. ill-TYPED serialized dicts (outside the well-typed domain of the statement)
def attempt(label, **override):
    d = {'objects': ('a', 'b'), 'properties': ('x', 'y'), 'context': [(0,), (1,)]}
    d.update(override)
    try:
        c = Context.fromdict(d)
    except Exception as e:
        print(f'{label}: raises {type(e).__name__}')
    else:
        print(f'{label}: accepted {c.objects} {c.properties} {c.bools}')


attempt('objects=None', objects=None)
attempt('context=7', context=7)
attempt('row=None', context=[(0,), None])
attempt('unhashable index', context=[(0,), ([1],)])
attempt('objects iterator', objects=iter(['a', 'b']))
attempt('rows generator', context=(r for r in [(0,), (1,)]))
attempt('row iterator', context=[iter([0]), (1,)])
# unchanged, for reference
attempt('valid')
attempt('str index', context=[(0,), ('1',)])
attempt('dup index', context=[(0, 0), (1,)])
