"""Print what differs observably around Lattice.graphviz()."""
import concepts

lattice = concepts.Context.fromstring('''
   |a|b|
x  |X| |
y  | |X|
''').lattice

src = lattice.graphviz().source
print('1. blank lines in source:', src.count('\n\n'))
print(src.split('\n', 1)[1])

seen = []
lattice.graphviz(make_object_label=lambda x: seen.append(type(x).__name__) or ' '.join(x))
print('2. callbacks receive:', sorted(set(seen)))

try:
    lattice.graphviz(make_property_label=len)
except TypeError as e:
    print('3. non-str label:', e)

try:
    dot = lattice.graphviz(node_attr={'fontname': 'Helvetica'}, name='L')
    print('4. node_attr/name accepted:', dot.source.splitlines()[1:3])
except TypeError as e:
    print('4. node_attr/name rejected:', e)
