"""Observe behaviour of lattice.graphviz() that property C20 leaves open."""
import concepts
from concepts import visualize

context = concepts.Context.fromstring('''
   |a|b|c|
x  |X| |X|
y  | |X|X|
z  | |X|X|
''')
lattice = context.lattice

dot = lattice.graphviz()

print('1. leading whitespace of the body statements:')
for line in dot.source.splitlines()[2:8]:
    print('  ', repr(line))

print('2. order in which the label callbacks are called:')
calls = []
lattice.graphviz(make_object_label=lambda o: calls.append(('O',) + tuple(o)) or ' '.join(o),
                 make_property_label=lambda p: calls.append(('P',) + tuple(p)) or ' '.join(p))
print('  ', calls)

print('3. None as label callback:')
try:
    same = lattice.graphviz(make_object_label=None, make_property_label=None).source
except Exception as e:
    print('  ', type(e).__name__)
else:
    # first line is the comment holding the repr with the address
    print('   accepted, same source as default:',
          same.splitlines()[1:] == dot.source.splitlines()[1:])

print('4. module-level helpers of concepts.visualize:')
print('  ', sorted(n for n in vars(visualize)
                   if not n.startswith('__') and n not in ('glob', 'os', 'operator', 'graphviz')))
