"""Fixed structured tables beyond what random generation reaches, with closed-form oracles.

Size thresholds in a library ("above N concepts / objects use the other code path") sit at round numbers that no
generator hits by chance: chains of hundreds of levels, lattices of 2**14 .. 2**19 concepts, thousands of objects.
The families here have answers one can write down, so no brute-force model is needed at these sizes.
"""

from . import gen


def contranominal(n):
    """Object i has every property but i: the Boolean lattice 2**n (every subset of objects is an extent)."""
    full = (1 << n) - 1
    return gen.mk_case(gen.labels('o', range(n)), gen.labels('p', range(n)), [full ^ (1 << i) for i in range(n)])


def chain(n):
    """Ordinal scale: object i has the properties j >= i; the lattice is a chain of n concepts (n + 1 if shifted)."""
    full = (1 << n) - 1
    return gen.mk_case(gen.labels('o', range(n)), gen.labels('p', range(n)), [full ^ ((1 << i) - 1) for i in range(n)])


def dense(n, m, fill, seed):
    """A dense random table (lattices of 10**5 concepts that are not graded level by level)."""
    rnd = gen._random.Random(repr(('dense', n, m, fill, seed)))
    rows = [sum((rnd.random() < fill) << j for j in range(m)) for _ in range(n)]
    return gen.mk_case(gen.labels('o', range(n)), gen.labels('p', range(m)), rows)


def tall_relations(n, seed):
    """n objects (thousands) x 6 properties with every binary relation kind present: p0 / p1 complementary, p2 / p3
    subcontrary (no object lacks both, some have both), p4 implies p2, p5 incompatible with p4; rows in seeded order."""
    rnd = gen._random.Random(repr(('tall_relations', n, seed)))
    rows = []
    for i in range(n):
        v = rnd.randrange(100)
        p0 = v < 40
        p1 = not p0
        p2 = v >= 20
        p3 = v < 70
        p4 = v >= 80
        p5 = v < 10
        rows.append(sum(b << j for j, b in enumerate((p0, p1, p2, p3, p4, p5))))
    return gen.mk_case(gen.labels('o', range(n)), gen.labels('p', range(6)), rows)
