"""Executor run in fresh interpreters (C11 unpickling, C17 call scripts).

usage: python child.py <batch.json> <out.json>   with VERIF_REPO and PYTHONHASHSEED in the environment.
"""

import base64
import json
import os
import pickle
import sys
import traceback

VERIF = os.path.dirname(os.path.dirname(os.path.abspath(__file__)))
sys.path.insert(0, VERIF)
REPO = os.path.abspath(os.environ.get('VERIF_REPO', '/repo'))
sys.path.insert(0, REPO)
sys.setrecursionlimit(max(sys.getrecursionlimit(), 1000))


def main():
    import concepts
    assert os.path.abspath(concepts.__file__).startswith(REPO + os.sep), concepts.__file__
    from vlib import fingerprint as fp
    batch = json.load(open(sys.argv[1], encoding='utf-8'))
    out = []
    for item in batch:
        try:
            kind = item['kind']
            if kind == 'script':
                from vlib import scripts
                out.append({'ok': scripts.execute(item['script'])})
                continue
            obj = pickle.loads(base64.b64decode(item['blob']))
            if kind == 'pickle-context':
                res = {'context': fp.context_fingerprint(obj), 'lattice': fp.lattice_fingerprint(obj.lattice, item['tag'])}
            elif kind == 'pickle-lattice':
                res = {'context': fp.context_fingerprint(obj._context) if hasattr(obj, '_context') else None,
                       'lattice': fp.lattice_fingerprint(obj, item['tag'])}
            elif kind == 'pickle-concepts':
                lattices = {id(c.lattice) for c in obj}
                res = {'n_lattices': len(lattices),
                       'concepts': [{'extent': list(c.extent), 'intent': list(c.intent), 'index': c.index,
                                     'is_member': c.lattice[c.index] is c, 'cls': type(c).__name__} for c in obj],
                       'lattice': fp.lattice_fingerprint(obj[0].lattice, item['tag'])}
            else:
                raise ValueError(kind)
            out.append({'ok': res})
        except BaseException as e:  # noqa: BLE001 - reported to the parent, which classifies it
            out.append({'error': f'{type(e).__name__}: {e}', 'trace': traceback.format_exc()[-2000:]})
    json.dump(out, open(sys.argv[2], 'w', encoding='utf-8'))


if __name__ == '__main__':
    main()
