"""Ordered-table model of ``concepts.Definition`` and an operation DSL shared by C13, C14 and C17.

The model is two ordered name lists (new names appended in the order given) and a set of
true cells.  An operation is a JSON list ``[name, arg, ...]``; a definition argument
(``other``) is encoded as ``[objects, properties, rows]`` with rows as lists of 0/1.
"""

import copy


def is_exc(raised, name):
    """The documented exception class *or a subclass of it* (a more specific class keeps every caller working)."""
    import builtins
    return name is None or isinstance(raised, getattr(builtins, name))


class Reject(Exception):
    """The model rejects the call (unknown or clashing name, conflicting cells)."""

    def __init__(self, reason, exc=None):
        super().__init__(reason)
        self.reason = reason
        self.exc = exc  # exception class name the doctests pin, or None for 'any exception'


class Model:

    def __init__(self, objects=(), properties=(), rows=()):
        self.objects = list(objects)
        self.properties = list(properties)
        self.cells = {(o, p) for o, row in zip(objects, rows) for p, v in zip(properties, row) if v}

    def copy(self):
        m = Model()
        m.objects = list(self.objects)
        m.properties = list(self.properties)
        m.cells = set(self.cells)
        return m

    def triple(self):
        return (tuple(self.objects), tuple(self.properties),
                [tuple((o, p) in self.cells for p in self.properties) for o in self.objects])

    def encode(self):
        return [list(self.objects), list(self.properties),
                [[int((o, p) in self.cells) for p in self.properties] for o in self.objects]]

    @classmethod
    def decode(cls, enc):
        return cls(enc[0], enc[1], enc[2])

    # -- helpers
    def _extend(self, names, new):
        for x in new:
            if x not in names:
                names.append(x)

    def conflicts(self, other):
        return [(o, p) for o in self.objects if o in other.objects
                for p in self.properties if p in other.properties
                if ((o, p) in self.cells) != ((o, p) in other.cells)]

    # -- operations (mutate self, return the documented return value)
    def apply(self, op):
        name, args = op[0], op[1:]
        return getattr(self, 'op_' + name)(*args)

    def op_setitem(self, o, p, value):
        self._extend(self.objects, [o])
        self._extend(self.properties, [p])
        (self.cells.add if value else self.cells.discard)((o, p))

    def op_getitem(self, o, p):
        if o not in self.objects or p not in self.properties:
            raise Reject('unknown name', 'KeyError')
        return (o, p) in self.cells

    def op_getitem_int(self, i):
        return self.triple()[i]

    def op_add_object(self, obj, properties=()):
        self._extend(self.objects, [obj])
        self._extend(self.properties, properties)
        self.cells |= {(obj, p) for p in properties}

    def op_add_property(self, prop, objects=()):
        self._extend(self.properties, [prop])
        self._extend(self.objects, objects)
        self.cells |= {(o, prop) for o in objects}

    def op_set_object(self, obj, properties):
        self._extend(self.objects, [obj])
        self._extend(self.properties, properties)
        self.cells = {c for c in self.cells if c[0] != obj} | {(obj, p) for p in properties}

    def op_set_property(self, prop, objects):
        self._extend(self.properties, [prop])
        self._extend(self.objects, objects)
        self.cells = {c for c in self.cells if c[1] != prop} | {(o, prop) for o in objects}

    def op_remove_object(self, obj):
        if obj not in self.objects:
            raise Reject('unknown object')
        self.objects.remove(obj)
        self.cells = {c for c in self.cells if c[0] != obj}

    def op_remove_property(self, prop):
        if prop not in self.properties:
            raise Reject('unknown property')
        self.properties.remove(prop)
        self.cells = {c for c in self.cells if c[1] != prop}

    def op_rename_object(self, old, new):
        if old not in self.objects:
            raise Reject('unknown object')
        if new in self.objects:
            raise Reject('clashing name' if new != old else 'rename to itself')
        self.objects[self.objects.index(old)] = new
        self.cells = {((new, p) if o == old else (o, p)) for o, p in self.cells}

    def op_rename_property(self, old, new):
        if old not in self.properties:
            raise Reject('unknown property')
        if new in self.properties:
            raise Reject('clashing name' if new != old else 'rename to itself')
        self.properties[self.properties.index(old)] = new
        self.cells = {((o, new) if p == old else (o, p)) for o, p in self.cells}

    def op_move_object(self, obj, index):
        if obj not in self.objects:
            raise Reject('unknown object')
        self.objects.remove(obj)
        self.objects.insert(index, obj)

    def op_move_property(self, prop, index):
        if prop not in self.properties:
            raise Reject('unknown property')
        self.properties.remove(prop)
        self.properties.insert(index, prop)

    def op_remove_empty_objects(self):
        empty = [o for o in self.objects if not any(c[0] == o for c in self.cells)]
        self.objects = [o for o in self.objects if o not in empty]
        return empty

    def op_remove_empty_properties(self):
        empty = [p for p in self.properties if not any(c[1] == p for c in self.cells)]
        self.properties = [p for p in self.properties if p not in empty]
        return empty

    def op_union_update(self, other, ignore_conflicts=False):
        other = Model.decode(other)
        if not ignore_conflicts and self.conflicts(other):
            raise Reject('conflicting cells', 'ValueError')
        self._extend(self.objects, other.objects)
        self._extend(self.properties, other.properties)
        self.cells |= other.cells

    def op_intersection_update(self, other, ignore_conflicts=False):
        other = Model.decode(other)
        if not ignore_conflicts and self.conflicts(other):
            raise Reject('conflicting cells', 'ValueError')
        self.objects = [o for o in self.objects if o in other.objects]
        self.properties = [p for p in self.properties if p in other.properties]
        self.cells &= other.cells

    def op_self_combine(self, how, ignore_conflicts=False):
        # the operand IS the definition itself: union / intersection with itself change nothing
        return 'self' if how in ('ior', 'iand') else None

    def op_ior(self, other):
        self.op_union_update(other)
        return 'self'

    def op_iand(self, other):
        self.op_intersection_update(other)
        return 'self'


MUTATORS = {'self_combine', 'setitem', 'add_object', 'add_property', 'set_object', 'set_property', 'remove_object',
            'remove_property', 'rename_object', 'rename_property', 'move_object', 'move_property',
            'remove_empty_objects', 'remove_empty_properties', 'union_update', 'intersection_update',
            'ior', 'iand'}


def real_definition(enc):
    import concepts
    return concepts.Definition(enc[0], enc[1], [tuple(bool(v) for v in row) for row in enc[2]])


def _fresh_copy(value):
    from .gen import fresh
    if isinstance(value, str):
        return fresh(value)
    if isinstance(value, list):
        return [_fresh_copy(v) for v in value]
    if isinstance(value, tuple):
        return tuple(_fresh_copy(v) for v in value)
    return value


def apply_real(d, op):
    """Apply ``op`` to a real Definition; return its return value (``'self'`` for the in-place operators)."""
    name, args = op[0], _fresh_copy(list(op[1:]))   # names are equal to, never identical with, the strings passed earlier
    if name == 'setitem':
        d[args[0], args[1]] = args[2]
        return None
    if name == 'getitem':
        return d[args[0], args[1]]
    if name == 'getitem_int':
        return d[args[0]]
    if name == 'self_combine':
        how = args[0]
        if how == 'ior':
            before = d
            d |= d
            return 'self' if d is before else d
        if how == 'iand':
            before = d
            d &= d
            return 'self' if d is before else d
        return getattr(d, how)(d, *args[1:])
    if name in ('union_update', 'intersection_update'):
        other = real_definition(args[0])
        return getattr(d, name)(other, *args[1:])
    if name in ('ior', 'iand'):
        other = real_definition(args[0])
        before = d
        if name == 'ior':
            d |= other
        else:
            d &= other
        return 'self' if d is before else d
    return getattr(d, name)(*args)


def real_triple(d):
    return (d.objects, d.properties, d.bools)


def internal(d):
    """Best-effort fingerprint of hidden state (falls back to the public triple)."""
    try:
        return (list(d._objects._items), sorted(d._objects._seen, key=repr),
                list(d._properties._items), sorted(d._properties._seen, key=repr),
                sorted(d._pairs, key=repr))
    except AttributeError:
        return real_triple(d)


def step(ctx, d, model, op, case, agreement=False):
    """Apply one op to both sides and compare; returns the new model, raises Violation through ctx."""
    import concepts
    before_triple = real_triple(d)
    before_internal = internal(d)
    m2 = model.copy()
    try:
        want = m2.apply(op)
        rejected = None
    except Reject as r:
        rejected = r
    site = op[0]
    try:
        got = apply_real(d, op)
        raised = None
    except Exception as e:  # noqa: BLE001 - the contract of a rejected call is 'raises'
        raised = e
    if rejected is not None:
        if raised is None:
            if rejected.reason == 'rename to itself' and real_triple(d) == before_triple:
                return model  # a no-op is accepted (DESIGN.md 5)
            ctx.fail(site + '/accepted-invalid', case(), f'{op!r}: model rejects ({rejected.reason}) but the call returned {got!r}')
        if rejected.exc and not is_exc(raised, rejected.exc):
            ctx.fail(site + '/exception-class', case(), f'{op!r}: raised {type(raised).__name__}, documented {rejected.exc}')
        ctx.check(real_triple(d) == before_triple, site + '/changed-on-reject', case,
                  lambda: f'{op!r} raised {type(raised).__name__} but changed the definition to {real_triple(d)!r}')
        # Hidden state is not part of the statement: a difference in private attributes is only *counted*; what the
        # statement forbids - residue that reappears later - is what the follow-up operations of the callers observe
        # (every probing operation after a rejected call in C13's exhaustive part, further rules in the machines).
        if internal(d) != before_internal:
            ctx.count('hidden_state_differs_after_reject')
        return model
    if raised is not None:
        ctx.fail(site + '/raises:' + type(raised).__name__, case(), f'{op!r} is valid for the model but raised '
                 f'{type(raised).__name__}: {raised}')
    if want == 'self':
        ctx.check(got == 'self', site + '/return', case, f'{op!r} did not return the definition itself')
    else:
        ctx.check(got == want and isinstance(got, type(want)), site + '/return', case,
                  lambda: f'{op!r} returned {got!r}, model {want!r}')
    invariants(ctx, d, m2, site, case, op)
    if agreement:
        context_agreement(ctx, d, m2, site, case, op)
    return m2


_AGREE = {'n': 0}


def context_agreement(ctx, d, model, site, case, op=None):
    """C14: shape, fill_ratio, table string and crc32 of a definition agree with the model and with Context(*d).

    Read on the SAME object after every step, so a value cached before an edit shows up as stale."""
    import concepts
    import fractions
    n, m = len(model.objects), len(model.properties)
    shape = d.shape
    ctx.check(tuple(shape) == (n, m) and shape.objects == n and shape.properties == m, site + '/shape', case,
              lambda: f'after {op!r}: shape {shape!r} but the table is {n} x {m}')
    if n * m:
        want = fractions.Fraction(len(model.cells), n * m)
        got = d.fill_ratio
        ctx.check(got == want, site + '/fill_ratio', case, lambda: f'after {op!r}: fill_ratio {got!r}, want {want!r}')
    _AGREE['n'] += 1
    if n and m and _AGREE['n'] % 8 == 0 and not set(model.objects) & set(model.properties):
        c = concepts.Context(*d)   # every 8th call only: a Context costs ~13 kB that the bitsets registry never frees
        ctx.check(c.shape == shape and c.fill_ratio == d.fill_ratio and c.tostring() == d.tostring() == str(d)
                  and c.crc32() == d.crc32(), site + '/context-agreement', case,
                  lambda: f'after {op!r}: shape / fill_ratio / tostring / crc32 differ between the definition and Context(*definition)')


def invariants(ctx, d, model, site, case, op=None):
    import concepts
    triple = real_triple(d)
    ctx.check(triple == model.triple(), site + '/triple', case,
              lambda: f'after {op!r}: definition {triple!r}, model {model.triple()!r}')
    o, p, b = triple
    ctx.check(len(b) == len(o) and all(len(r) == len(p) for r in b), site + '/bools-shape', case,
              lambda: f'after {op!r}: bools {b!r} do not match {len(o)} x {len(p)}')
    fresh = concepts.Definition(o, p, b)
    ctx.check(d == fresh and fresh == d and not (d != fresh), site + '/not-equal-to-fresh', case,
              lambda: f'after {op!r}: definition != Definition(*definition) (residue of removed/renamed names?)')
    ctx.check(real_triple(fresh) == triple, site + '/fresh-triple', case, 'Definition(*d) has a different triple')


def all_orderings(names):
    """Every ordered list without repeats of every subset of names."""
    import itertools
    out = []
    for r in range(len(names) + 1):
        out.extend(list(p) for p in itertools.permutations(names, r))
    return out


def all_definitions(objs, props):
    """Every visible definition over the name universe, encoded."""
    import itertools
    out = []
    for o in all_orderings(objs):
        for p in all_orderings(props):
            cells = len(o) * len(p)
            for t in range(1 << cells):
                out.append([o, p, [[(t >> (i * len(p) + j)) & 1 for j in range(len(p))] for i in range(len(o))]])
    return out
