"""Independent parser for the statement-per-line DOT that graphviz.Digraph emits for a lattice body.

Statements (one per line): ``ID`` (node), ``ID -> ID`` (edge), each optionally followed by one or more
``[key=value key=value ...]`` lists (``,`` / ``;`` separators allowed) and an optional ``;``, where a value is a
bare token or a double-quoted string in which ``\\"`` stands for ``"`` (every other backslash sequence is kept
verbatim).  Blank lines and comment lines (``//``, ``#``, one-line ``/* */``) are not statements.  ``node`` /
``edge`` / ``graph`` default statements are accepted as long as they set nothing the drawing oracle reads.
"""

ORACLE_KEYS = ('label', 'headlabel', 'taillabel', 'xlabel', 'dir', 'style', 'color')


class DotError(Exception):
    pass


class QStr(str):
    """An attribute value that was written as a double-quoted string (not a bare / HTML-like token)."""


def _read_id(s, i):
    if i < len(s) and s[i] == '"':
        i += 1
        out = []
        while True:
            if i >= len(s):
                raise DotError('unterminated string')
            ch = s[i]
            if ch == '\\' and i + 1 < len(s) and s[i + 1] == '"':
                out.append('"')
                i += 2
            elif ch == '\\' and i + 1 < len(s) and s[i + 1] == '\\':
                out.append('\\\\')
                i += 2
            elif ch == '"':
                return ''.join(out), i + 1
            else:
                out.append(ch)
                i += 1
    j = i
    while j < len(s) and not s[j].isspace() and s[j] not in '[]=,;':
        j += 1
    if j == i:
        raise DotError(f'identifier expected at {i} in {s!r}')
    return s[i:j], j


def _skip(s, i):
    while i < len(s) and s[i] in ' \t':
        i += 1
    return i


def is_blank_or_comment(line):
    t = line.strip()
    return (not t or t.startswith('//') or t.startswith('#')
            or (t.startswith('/*') and t.endswith('*/') and t.count('*/') == 1))


def parse_statement(line):
    """Return ('node', name, attrs), ('edge', (tail, head), attrs) or ('default', keyword, attrs)."""
    s = line.rstrip('\n')
    if '\n' in s:
        raise DotError('statement spans lines')
    i = _skip(s, 0)
    a, i = _read_id(s, i)
    i = _skip(s, i)
    kind, what = 'node', a
    if s.startswith('->', i):
        i = _skip(s, i + 2)
        b, i = _read_id(s, i)
        i = _skip(s, i)
        kind, what = 'edge', (a, b)
    attrs = {}
    while i < len(s) and s[i] == '[':
        i += 1
        while True:
            i = _skip(s, i)
            while i < len(s) and s[i] in ',;':
                i = _skip(s, i + 1)
            if i < len(s) and s[i] == ']':
                i = _skip(s, i + 1)
                break
            k, i = _read_id(s, i)
            if i >= len(s) or s[i] != '=':
                raise DotError(f'= expected in {s!r}')
            quoted = i + 1 < len(s) and s[i + 1] == '"'
            v, i = _read_id(s, i + 1)
            if k in attrs:
                raise DotError(f'duplicate attribute {k}')
            attrs[k] = QStr(v) if quoted else v
    i = _skip(s, i)
    if i < len(s) and s[i] == ';':
        i = _skip(s, i + 1)
    if i != len(s):
        raise DotError(f'trailing text {s[i:]!r}')
    if kind == 'node' and what in ('node', 'edge', 'graph') and not line.lstrip().startswith('"'):
        if any(k in ORACLE_KEYS for k in attrs):
            raise DotError(f'default statement sets attributes the oracle reads: {s!r}')
        return 'default', what, attrs
    return kind, what, attrs


def parse_body(body):
    """Node and edge statements of the body lines (blank lines, comments and harmless defaults dropped)."""
    out = []
    for line in body:
        for part in line.splitlines() or ['']:
            if is_blank_or_comment(part):
                continue
            st = parse_statement(part)
            if st[0] != 'default':
                out.append(st)
    return out
