"""'Every public query' dump of a lattice / context as JSON-able data (used by C11 and C17).

Only public attributes are used.  The same function runs in the parent and in child
interpreters, so any choice it makes is derived from its arguments, never from hashes.
"""

import random


def _pairs(k, tag, limit=40, sample=120):
    if k <= limit:
        return [(i, j) for i in range(k) for j in range(k)]
    rnd = random.Random(f'{tag}:{k}')
    return [(rnd.randrange(k), rnd.randrange(k)) for _ in range(sample)]


def _some(k, tag, limit=200, sample=40):
    if k <= limit:
        return list(range(k))
    rnd = random.Random(f'{tag}:{k}')
    return sorted({0, k - 1} | {rnd.randrange(k) for _ in range(sample)})


def lattice_fingerprint(lattice, tag='fp'):
    members = list(lattice)
    k = len(members)
    pos = {id(c): i for i, c in enumerate(members)}

    def ix(c):
        return pos.get(id(c), -1)

    out = {'len': len(lattice), 'repr': repr(lattice).split(' at 0x')[0],
           'infimum': ix(lattice.infimum), 'supremum': ix(lattice.supremum),
           'atoms': [ix(a) for a in lattice.atoms]}
    concepts = []
    for c in members:
        concepts.append({
            'extent': list(c.extent), 'intent': list(c.intent), 'index': c.index, 'dindex': c.dindex,
            'objects': [list(c.objects), type(c.objects).__name__],
            'properties': [list(c.properties), type(c.properties).__name__],
            'atoms': [ix(a) for a in c.atoms],
            'upper': [ix(u) for u in c.upper_neighbors], 'lower': [ix(l) for l in c.lower_neighbors],
            'cls': type(c).__name__, 'str': str(c), 'pair': [list(x) for x in c],
            'lattice_is': c.lattice is lattice,
        })
    out['concepts'] = concepts
    some = _some(k, tag)
    out['upsets'] = {str(i): [ix(c) for c in members[i].upset()] for i in some}
    out['downsets'] = {str(i): [ix(c) for c in members[i].downset()] for i in some}
    out['minimal'] = {str(i): list(members[i].minimal()) for i in some if len(members[i].intent) <= 12}
    pj = _pairs(k, tag)
    out['join'] = [ix(lattice.join([members[i], members[j]])) for i, j in pj]
    out['meet'] = [ix(members[i] & members[j]) for i, j in pj]
    out['le'] = [bool(members[i] <= members[j]) for i, j in pj[:400]]
    out['upset_union'] = [[ix(c) for c in lattice.upset_union([members[i], members[j]])] for i, j in pj[:60]]
    out['downset_union'] = [[ix(c) for c in lattice.downset_union([members[i], members[j]])] for i, j in pj[:60]]
    # lookups by labels
    look = []
    for i in some[:60]:
        c = members[i]
        if c.extent:
            look.append(ix(lattice[c.extent]))
        look.append(ix(lattice(c.intent)))
        look.append(ix(lattice[i]))
    out['lookup'] = look
    out['getitem_empty'] = ix(lattice[()])
    if k <= 300:
        out['str'] = str(lattice).split('\n', 1)[1] if '\n' in str(lattice) else ''
        labels = ''.join(''.join(c.objects) + ''.join(c.properties) for c in members)
        if '\\' not in labels:  # the graphviz package warns about / mangles trailing backslashes: not repository behaviour
            out['dot'] = list(lattice.graphviz().body)
    return out


def context_fingerprint(context):
    return {'objects': list(context.objects), 'properties': list(context.properties),
            'bools': [list(map(bool, r)) for r in context.bools], 'shape': list(context.shape),
            'crc32': context.crc32() if len(context.objects) * len(context.properties) <= 10000 else None}


def diff(a, b, path=''):
    """First difference between two JSON-able values, as text (or None)."""
    if type(a) is not type(b):
        return f'{path}: {a!r} vs {b!r}'
    if isinstance(a, dict):
        for k in sorted(set(a) | set(b)):
            if k not in a or k not in b:
                return f'{path}/{k}: missing on one side'
            d = diff(a[k], b[k], f'{path}/{k}')
            if d:
                return d
        return None
    if isinstance(a, list):
        if len(a) != len(b):
            return f'{path}: length {len(a)} vs {len(b)}: {str(a)[:200]} vs {str(b)[:200]}'
        for i, (x, y) in enumerate(zip(a, b)):
            d = diff(x, y, f'{path}[{i}]')
            if d:
                return d
        return None
    return None if a == b else f'{path}: {a!r} vs {b!r}'
