#!/venv/bin/python
"""Coverage-guided deepening of a Hypothesis check body: atheris (libFuzzer) drives ``fuzz_one_input``.

usage: fuzz_target.py <C12|C19> <replay-out.json> <stats-out.json> [libFuzzer flags ...]

The semantic oracle is the check's own body; a Violation is written to <replay-out.json> and the process exits
through libFuzzer's crash path (non-zero).  Used only by the thorough tier; never the deciding engine.
"""
import json
import os
import sys

VERIF = os.path.dirname(os.path.dirname(os.path.abspath(__file__)))
sys.path.insert(0, VERIF)
sys.path.insert(1, os.path.join(VERIF, '.deps'))

import atheris  # noqa: E402

from vlib import runner  # noqa: E402

with atheris.instrument_imports(include=['concepts']):
    runner.bootstrap()

import importlib  # noqa: E402

from hypothesis import HealthCheck, given, settings  # noqa: E402

prop, replay_out, stats_out = sys.argv[1:4]
module = importlib.import_module('checks.' + prop.lower())
ctx = runner.Ctx(prop, {'kind': 'atheris'}, 'thorough', int(os.environ.get('VERIF_SEED', '1') or 1))
counter = {'n': 0}


def clear_registry():
    """The bitsets class registry never shrinks; drop it between cases (nothing checked depends on old entries)."""
    try:
        import bitsets.meta
        bitsets.meta.MemberBitsMeta._MemberBitsMeta__registry.clear()
    except Exception:  # noqa: BLE001
        pass


if prop == 'C12':
    strategy, body = module.cases(), (lambda case: module.check_one(case, ctx, files=False))
elif prop == 'C19':
    strategy, body = module.hyp_inputs(), (lambda pair: module.run_input(pair[0], ctx, pair[1]))
else:
    raise SystemExit('no fuzz target for ' + prop)


@settings(database=None, deadline=None, suppress_health_check=list(HealthCheck))
@given(strategy)
def test(value):
    counter['n'] += 1
    if counter['n'] % 500 == 0:
        clear_registry()
        dump_stats()
    try:
        body(value)
    except runner.Violation as v:
        with open(replay_out, 'w', encoding='utf-8') as f:
            json.dump({'site': v.site, 'case': v.case, 'message': v.message}, f, default=str)
        dump_stats()
        raise


def dump_stats():
    with open(stats_out, 'w') as f:
        json.dump({'executions': counter['n'], 'evaluations': ctx.evaluations,
                   'nontrivial': sorted(ctx.nontrivial)[:200000], 'classes': dict(ctx.classes)}, f)


import atexit  # noqa: E402  (does not run under libFuzzer's _exit; stats are dumped periodically instead)
atheris.Setup([sys.argv[0]] + sys.argv[4:], test.hypothesis.fuzz_one_input)
atheris.Fuzz()
