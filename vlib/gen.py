"""Generators: Hypothesis strategies and exhaustive enumerators for context tables.

A *table case* is the JSON-able dict ``{'o': [object labels], 'p': [property
labels], 'r': [row ints]}``; bit ``j`` of ``r[i]`` is cell (object i, property j).
"""

import itertools
import random as _random  # only for seed-derived label permutations in enumerators

from hypothesis import strategies as st


def bools_of(case):
    m = len(case['p'])
    return [tuple(bool(r >> j & 1) for j in range(m)) for r in case['r']]


def mk_case(objects, properties, rows):
    return {'o': list(objects), 'p': list(properties), 'r': [int(r) for r in rows]}


def labels(prefix, perm):
    return [f'{prefix}{k}' for k in perm]


# ---------------------------------------------------------------------------
# scales (rows as ints over m columns)

def nominal(n):
    return n, [1 << i for i in range(n)]


def contranominal(n):
    full = (1 << n) - 1
    return n, [full ^ (1 << i) for i in range(n)]


def ordinal(n):
    return n, [(1 << (i + 1)) - 1 for i in range(n)]


def interordinal(n):
    # columns: <=0..<=n-1, >=0..>=n-1
    rows = []
    for i in range(n):
        le = sum(1 << j for j in range(n) if i <= j)
        ge = sum(1 << (n + j) for j in range(n) if i >= j)
        rows.append(le | ge)
    return 2 * n, rows


def dichotomic(n):
    # n objects, 2 columns per binary digit
    bits = max(1, (n - 1).bit_length())
    rows = []
    for i in range(n):
        r = 0
        for b in range(bits):
            r |= 1 << (2 * b + (i >> b & 1))
        rows.append(r)
    return 2 * bits, rows


SCALES = {'nominal': nominal, 'contranominal': contranominal, 'ordinal': ordinal,
          'interordinal': interordinal, 'dichotomic': dichotomic}


def transpose(n, m, rows):
    return [sum(((rows[i] >> j) & 1) << i for i in range(n)) for j in range(m)]


# ---------------------------------------------------------------------------
# Hypothesis strategies

PROFILES = {
    # name: (max_n, max_m)
    'tiny': (4, 4),
    'small': (7, 7),
    'medium': (10, 10),
}


@st.composite
def _density_int(draw, m, density):
    """An m-bit int whose bits are set with roughly the given density class."""
    full = (1 << m) - 1
    r = st.integers(0, full)
    if density == 0:    # ~.12
        return draw(r) & draw(r) & draw(r)
    if density == 1:    # ~.25
        return draw(r) & draw(r)
    if density == 2:    # ~.5
        return draw(r)
    if density == 3:    # ~.75
        return draw(r) | draw(r)
    return draw(r) | draw(r) | draw(r)  # ~.88


@st.composite
def raw_tables(draw, profile='small', min_n=1, min_m=1):
    """(family, n, m, rows) before labelling."""
    max_n, max_m = PROFILES[profile] if isinstance(profile, str) else profile
    family = draw(st.sampled_from(['bernoulli', 'bernoulli', 'bernoulli', 'scale', 'apposition', 'anyint']))
    def dim(lo, hi):
        # one- and two-line tables stay possible but do not dominate (Hypothesis favours small integers)
        pool = [d for d in range(lo, hi + 1) for _ in range(1 if d < 3 else 3)]
        return draw(st.sampled_from(pool))
    if family == 'bernoulli':
        n = dim(min_n, max_n)
        m = dim(min_m, max_m)
        density = draw(st.sampled_from([0, 1, 1, 2, 2, 2, 3, 3, 4]))
        rows = [draw(_density_int(m, density)) for _ in range(n)]
    elif family == 'anyint':
        n = dim(min_n, max_n)
        m = dim(min_m, max_m)
        rows = draw(st.lists(st.integers(0, (1 << m) - 1), min_size=n, max_size=n))
    else:
        def one_scale():
            name = draw(st.sampled_from(sorted(SCALES)))
            k = dim(max(1, min_n), max(1, min(max_n, max_m)))
            m, rows = SCALES[name](k)
            if m > max_m:  # interordinal/dichotomic may be wide: clip objects
                k = max(1, max_m // 2)
                m, rows = SCALES[name](k)
            return name, k, m, rows
        name, n, m, rows = one_scale()
        family = name
        if draw(st.booleans()) and family != 'apposition':
            pass
        if draw(st.sampled_from([False, True])) and m < max_m:
            # apposition with a second scale on the same objects (cycled)
            name2 = draw(st.sampled_from(sorted(SCALES)))
            m2, rows2 = SCALES[name2](n)
            if m + m2 <= max_m:
                rows = [r | (r2 << m) for r, r2 in zip(rows, rows2)]
                m += m2
                family = f'{name}+{name2}'
        if draw(st.booleans()):
            rows = transpose(n, m, rows)
            n, m = m, n
            family += 'T'
        if n < min_n or m < min_m or n > max_n or m > max_m:
            n = min(max(n, min_n), max_n)
            m = min(max(m, min_m), max_m)
            rows = (rows + [0] * n)[:n]
            rows = [r & ((1 << m) - 1) for r in rows]
    full = (1 << m) - 1
    rows = [r & full for r in rows]
    # perturbations
    n_pert = draw(st.integers(0, 3))
    for _ in range(n_pert):
        kind = draw(st.sampled_from(['flip', 'duprow', 'dupcol', 'fullrow', 'emptyrow',
                                     'fullcol', 'emptycol', 'meetrow']))
        i = draw(st.integers(0, n - 1))
        j = draw(st.integers(0, m - 1))
        if kind == 'flip':
            rows[i] ^= 1 << j
        elif kind == 'duprow':
            rows[i] = rows[draw(st.integers(0, n - 1))]
        elif kind == 'dupcol':
            j2 = draw(st.integers(0, m - 1))
            rows = [(r & ~(1 << j)) | (((r >> j2) & 1) << j) for r in rows]
        elif kind == 'fullrow':
            rows[i] = full
        elif kind == 'emptyrow':
            rows[i] = 0
        elif kind == 'fullcol':
            rows = [r | (1 << j) for r in rows]
        elif kind == 'emptycol':
            rows = [r & ~(1 << j) for r in rows]
        elif kind == 'meetrow':
            a = draw(st.integers(0, n - 1))
            b = draw(st.integers(0, n - 1))
            rows[i] = rows[a] & rows[b]
    # row and column permutation
    rperm = draw(st.permutations(range(n)))
    cperm = draw(st.permutations(range(m)))
    rows = [rows[i] for i in rperm]
    rows = [sum(((r >> cperm[j]) & 1) << j for j in range(m)) for r in rows]
    return family, n, m, rows


@st.composite
def tables(draw, profile='small', min_n=1, min_m=1):
    """Table case with labels whose sort order never coincides with position by construction."""
    family, n, m, rows = draw(raw_tables(profile, min_n, min_m))
    operm = draw(st.permutations(range(n)))
    pperm = draw(st.permutations(range(m)))
    case = mk_case(labels('o', operm), labels('p', pperm), rows)
    case['f'] = family
    return case


@st.composite
def wide_tables(draw):
    """n <= 6 rows and 60..140 columns (or transposed): multi-word bitsets, long zero runs."""
    n = draw(st.integers(1, 6))
    # mostly 60..140; one in five beyond 256 (CPython small-int cache, four machine words)
    m = draw(st.one_of(st.integers(60, 140), st.integers(60, 140), st.integers(60, 140), st.integers(60, 140),
                       st.integers(257, 320)))
    kind = draw(st.sampled_from(['sparse', 'dense', 'edges', 'runs', 'random']))
    full = (1 << m) - 1
    rows = []
    for _ in range(n):
        if kind == 'random':
            r = draw(st.integers(0, full))
        elif kind == 'sparse':
            r = 0
            for pos in draw(st.lists(st.integers(0, m - 1), max_size=4)):
                r |= 1 << pos
        elif kind == 'dense':
            r = full
            for pos in draw(st.lists(st.integers(0, m - 1), max_size=4)):
                r &= ~(1 << pos)
        elif kind == 'edges':
            r = 0
            for pos in draw(st.lists(st.sampled_from([0, 1, 31, 32, 33, 59, 60, 61, 62, 63, 64, 65, 127, 128, 129, 255, 256, 257,
                                                      m - 2, m - 1]), max_size=5)):
                if pos < m:
                    r |= 1 << pos
        else:  # runs
            a = draw(st.integers(0, m - 1))
            b = draw(st.integers(a, m - 1))
            r = ((1 << (b + 1)) - 1) ^ ((1 << a) - 1)
            if draw(st.booleans()):
                r ^= full
        rows.append(r)
    transposed = draw(st.booleans())
    if transposed:
        rows = transpose(n, m, rows)
        n, m = m, n
    case = mk_case(labels('o', range(n)), labels('p', range(m)), rows)
    case['f'] = 'wide-' + kind + ('T' if transposed else '')
    return case


ODD_LABELS = [
    # not in Unicode NFC form next to their composed twins; compatibility singletons
    'e\u0301', '\u00e9', 'a\u0303', '\u00e3', '\u212b', '\u00c5', '\u2126', '\u03a9', 'caf\u0065\u0301', 'caf\u00e9',
    # one-character labels and their concatenations, case variants, case-folding traps
    'A', 'B', 'AB', 'BA', 'Ab', 'a', 'b', 'ab', 'X', 'x', '.', '\u00df', 'SS', '\u0131', 'I', 'i',
    # numeric-looking
    '0', '1', '01', '1.0', '12', '2', '-1', '1e3',
    # words of the serialisation formats and of Python
    'lattice', 'objects', 'properties', 'context', "'lattice'", 'None', 'True', 'False', 'nan',
    # format syntax look-alikes
    '---', '====', '-+-', ':---:', '{}', '[]', '()', "it's", '"q"', '\\', 'a,b', 'a;b', 'a\tb',
    # long and prefix-sharing
    'o', 'o1', 'o10', 'o1 x', 'z' * 40, 'z' * 40 + 'y', 'z' * 39,
]


@st.composite
def odd_tables(draw):
    """Small tables whose labels come from ODD_LABELS: what a label *says* must not matter to a Context."""
    case = draw(tables('small'))
    n, m = len(case['o']), len(case['p'])
    names = draw(st.lists(st.sampled_from(ODD_LABELS), min_size=n + m, max_size=n + m, unique=True))
    family = draw(st.sampled_from(['', '', 'o', 'p']))
    size = n if family == 'o' else m
    if family and size >= 3:
        # two one-character labels and their concatenation on the same axis ('A', 'B', 'AB')
        x, y = draw(st.lists(st.sampled_from('ABabXx12'), min_size=2, max_size=2, unique=True))
        trio = [x, y, x + y]
        rest = [t for t in names if t not in trio]
        names = (trio + rest[:n - 3] + rest[n - 3:n - 3 + m]) if family == 'o' else (rest[:n] + trio + rest[n:n + m - 3])
    case = dict(case, o=names[:n], p=names[n:n + m])
    case['f'] = 'odd-labels'
    return case


@st.composite
def tall_tables(draw):
    """513-2100 objects x 3-7 properties (or transposed) whose columns are predicates over one integer per object -
    mostly *wide* thresholds and intervals (each true for most objects), residues, and columns derived from two others
    (a superset of their intersection, a subset of their union) - so that columns imply each other the way scaled
    real data does (``age >= 18`` and ``age < 50`` imply ``full fare``) while their intersections still hold hundreds
    of objects; independent random columns never do that at this size.  Column order is drawn separately."""
    n = draw(st.one_of(st.integers(513, 700), st.integers(1025, 1100), st.integers(1025, 1100), st.integers(1500, 2100)))
    m = draw(st.integers(3, 7))
    top = draw(st.sampled_from([20, 100, 1000]))
    values = draw(st.lists(st.integers(0, top - 1), min_size=n, max_size=n))
    cols = []
    for _ in range(m):
        kind = draw(st.sampled_from(['ge', 'lt', 'interval', 'mod', 'superset-of-meet', 'subset-of-join', 'ge', 'lt']))
        a = draw(st.integers(0, top // 5))
        b = draw(st.integers(top - top // 5, top))
        k = draw(st.integers(2, 7))
        if kind in ('superset-of-meet', 'subset-of-join') and len(cols) >= 2:
            x, y = draw(st.sampled_from(cols)), draw(st.sampled_from(cols))
            extra = [v % k == 0 for v in values]
            col = ([(p and q) or e for p, q, e in zip(x, y, extra)] if kind == 'superset-of-meet'
                   else [(p or q) and not e for p, q, e in zip(x, y, extra)])
        elif kind == 'lt':
            col = [v < b for v in values]
        elif kind == 'interval':
            col = [a <= v < b for v in values]
        elif kind == 'mod':
            col = [v % k != 0 for v in values]
        else:
            col = [v >= a for v in values]
        cols.append(col)
    cols = draw(st.permutations(cols))
    rows = [sum(1 << j for j, col in enumerate(cols) if col[i]) for i in range(n)]
    transposed = draw(st.integers(0, 3)) == 0
    if transposed:
        rows = transpose(n, m, rows)
        n, m = m, n
    case = mk_case(labels('o', range(n)), labels('p', range(m)), rows)
    case['f'] = 'tall-scaled' + ('T' if transposed else '')
    return case


@st.composite
def mid_tables(draw):
    """Middling sizes: 11-26 objects x 7-16 properties (or transposed), sparse or dense fill, 40-600 concepts typically;
    optionally some duplicated rows and a few rows that are unions / intersections of others."""
    n = draw(st.integers(11, 26))
    m = draw(st.integers(7, 16))
    full = (1 << m) - 1
    density = draw(st.sampled_from([1, 2, 2, 3]))
    rows = [draw(_density_int(m, density)) for _ in range(n)]
    for _ in range(draw(st.integers(0, 4))):
        i, a, b = (draw(st.integers(0, n - 1)) for _ in range(3))
        kind = draw(st.sampled_from(['dup', 'meet', 'join']))
        rows[i] = rows[a] if kind == 'dup' else (rows[a] & rows[b] if kind == 'meet' else rows[a] | rows[b])
    rows = [r & full for r in rows]
    transposed = draw(st.booleans())
    if transposed:
        rows = transpose(n, m, rows)
        n, m = m, n
    operm = draw(st.permutations(range(n)))
    pperm = draw(st.permutations(range(m)))
    case = mk_case(labels('o', operm), labels('p', pperm), rows)
    case['f'] = 'mid' + ('T' if transposed else '')
    return case


@st.composite
def index_subsets(draw, size, max_size=None):
    """A subset of range(size) as sorted list (construction, not rejection)."""
    if size == 0:
        return []
    mask = draw(st.integers(0, (1 << size) - 1))
    if max_size is not None:
        # drop high bits until small enough
        idx = [i for i in range(size) if mask >> i & 1]
        return idx[:max_size]
    return [i for i in range(size) if mask >> i & 1]


@st.composite
def argument_form(draw, members):
    """A query argument denoting the set ``members``: shuffled, with repeats; returns (form, list)."""
    members = list(members)
    if members:
        extra = draw(st.lists(st.sampled_from(members), max_size=3))
    else:
        extra = []
    seq = draw(st.permutations(members + extra))
    form = draw(st.sampled_from(['list', 'tuple', 'iter']))
    return form, list(seq)


def fresh(value):
    """An equal but not identical copy of a label (labels parsed from a file or typed by a user are never the very
    string objects the context was built from; strings of one character are interned by CPython and stay identical)."""
    if isinstance(value, str) and len(value) > 1:
        return ''.join(list(value))
    return value


def as_form(form, seq):
    seq = [fresh(x) for x in seq]
    if form == 'str':
        return ''.join(seq)
    if form == 'list':
        return list(seq)
    if form == 'tuple':
        return tuple(seq)
    if form == 'set':          # unordered collections of labels (their iteration order is the interpreter's business)
        return set(seq)
    if form == 'frozenset':
        return frozenset(seq)
    if form == 'dict':         # a dict iterates over its keys
        return dict.fromkeys(seq, True)
    if form == 'keys':
        return dict.fromkeys(seq).keys()
    return iter(list(seq))


# ---------------------------------------------------------------------------
# exhaustive enumerators

def shapes_upto(cells, max_dim=None):
    """All (n, m) with 1 <= n*m <= cells."""
    out = []
    for n in range(1, cells + 1):
        for m in range(1, cells // n + 1):
            if max_dim and (n > max_dim or m > max_dim):
                continue
            out.append((n, m))
    return out


def seeded_perm(k, *key):
    rnd = _random.Random(repr(key))
    p = list(range(k))
    rnd.shuffle(p)
    return p


def table_from_index(n, m, t, seed=0):
    """The t-th fill (0 <= t < 2**(n*m)) of an n x m table with seed-derived label permutations."""
    mask = (1 << m) - 1
    rows = [(t >> (i * m)) & mask for i in range(n)]
    return mk_case(labels('o', seeded_perm(n, 'o', n, m, seed)),
                   labels('p', seeded_perm(m, 'p', n, m, seed)), rows)


def exhaustive_blocks(cells, block=8192, min_cells=1, shapes=None):
    """Split 'every table with min_cells <= n*m <= cells' into tasks of <= block tables."""
    tasks = []
    for (n, m) in (shapes or shapes_upto(cells)):
        if n * m < min_cells:
            continue
        total = 1 << (n * m)
        for start in range(0, total, block):
            tasks.append({'kind': 'exhaustive', 'n': n, 'm': m, 'start': start,
                          'stop': min(total, start + block)})
    return tasks


def row_multisets(n, m):
    """Every multiset of n rows over m columns (one order each)."""
    return itertools.combinations_with_replacement(range(1 << m), n)


def balance(tasks, weight=lambda t: t.get('stop', 1) - t.get('start', 0)):
    """Largest first so that the pool finishes evenly."""
    return sorted(tasks, key=weight, reverse=True)
