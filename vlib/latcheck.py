"""Helpers for checks that quantify over the concepts of one lattice."""

from . import gen, lib
from .oracle import Ref


class Built:
    """A context, its lattice and the reference model, with member objects keyed by reference index."""

    def __init__(self, case, ctx, plain):
        self.case = case
        self.ref = Ref.of(case)
        self.maps = lib.Maps(case)
        self.context = ctx.call('Context()', plain, lib.context_of, case)
        self.lattice = ctx.call('context.lattice', plain, lambda: self.context.lattice)
        self.members = list(self.lattice)
        cs = self.ref.concepts
        by_ext = {self.maps.omask(c.extent): c for c in self.members}
        ctx.check(set(by_ext) == set(self.ref.index) and len(self.members) == len(cs), 'concept-set', plain,
                  'lattice is not the concept set (see C03)')
        self.by_idx = [by_ext[c[0]] for c in cs]
        self.idx_of = {id(c): k for k, c in enumerate(self.by_idx)}

    def idx(self, concept):
        return self.idx_of.get(id(concept), -1)


def pairs(k, rnd, limit=40, sample=300):
    if k <= limit:
        return [(i, j) for i in range(k) for j in range(k)]
    return [(rnd.randrange(k), rnd.randrange(k)) for _ in range(sample)]


def multisets(k, rnd, count=6, maxlen=5):
    out = [[]]
    for _ in range(count):
        out.append([rnd.randrange(k) for _ in range(rnd.randint(1, maxlen))])
    return out


def interleaved(make):
    """Several live iterators of the SAME call: two consumed alternately (the second running ahead), then a full inner
    traversal while an outer one is suspended after its first item.  Returns the four sequences that were seen; each
    must be the complete answer - an iterator may not depend on other iterators of the same object being alive."""
    a, b = make(), make()
    out_a, out_b = [], []
    live = [(a, out_a, 1), (b, out_b, 2)]
    while live:
        for entry in list(live):
            it, out, step = entry
            for _ in range(step):
                try:
                    out.append(next(it))
                except StopIteration:
                    live.remove(entry)
                    break
    outer, got, inner = make(), [], None
    for x in outer:
        got.append(x)
        if inner is None:
            inner = list(make())
    return out_a, out_b, got, (inner if inner is not None else [])


def orphans(case, ctx, plain):
    """The concepts of a lattice whose Context and Lattice objects the caller no longer references.

    A helper that returns ``list(context.lattice)`` is ordinary user code; what the concepts answer afterwards may
    not depend on the garbage collector.  Returns the member objects in reference order (or None if the lattice
    is not the concept set - C03 reports that)."""
    import gc
    import concepts
    ref = Ref.of(case)
    maps = lib.Maps(case)

    def members():
        context = concepts.Context(case['o'], case['p'], gen.bools_of(case))
        return list(context.lattice)

    got = ctx.call('orphans/list(context.lattice)', plain, members)
    gc.collect()
    cs = ref.concepts
    by_ext = {maps.omask(c.extent): c for c in got}
    if set(by_ext) != set(ref.index):
        return None
    return [by_ext[c[0]] for c in cs]
