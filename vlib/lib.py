"""Small helpers shared by the checks (building library objects from table cases)."""

from . import gen
from .oracle import Ref, positions


_SIBLINGS = []


def context_of(case, sibling=True):
    """Build the context of a table case.

    Right after it, a *sibling* context with the same labels but one flipped cell is created and kept alive
    (last 8): results about a context may depend on nothing but that context, so neither an earlier nor a
    later instance with equal labels can be allowed to influence the answers the check is about to verify.
    """
    import concepts
    bools = gen.bools_of(case)
    context = concepts.Context(case['o'], case['p'], bools)
    if sibling:
        n, m = len(case['o']), len(case['p'])
        t = sum(case['r']) + n * 7 + m
        i, j = t % n, (t // n) % m
        rows = [list(r) for r in bools]
        rows[i][j] = not rows[i][j]
        twin = concepts.Context(case['o'], case['p'], [tuple(r) for r in rows])
        twin.intension([case['o'][i]])        # touch it: lazily installed state would be installed now
        _SIBLINGS.append(twin)
        del _SIBLINGS[:-8]
        prelude(context, twin, case)
    return context


PRELUDE_COUNTS = {}


def _prelude_calls():
    import copy
    import pickle
    from concepts import algorithms

    def definition_edit(c, t):
        d = c.definition()
        d.add_object('prelude-o', list(c.properties[:1]))
        if c.properties:
            d.remove_property(c.properties[-1])

    def dict_edit(c, t):
        d = c.todict()
        d['objects'] = list(d['objects']) + ['prelude-o']
        d['context'] = list(d['context'])
        d['context'].append([])
        if 'lattice' in d:
            d['lattice'] = list(d['lattice'])[::-1]

    def bools_edit(c, t):
        b = c.bools
        if isinstance(b, list):
            b.reverse()

    def half_iter(c, t):
        it = iter(c.lattice)
        next(it)
        up = c.lattice.infimum.upset()
        next(up)
        g = algorithms.fast_generate_from(c)
        next(g)

    return [
        ('lattice', lambda c, t: len(c.lattice)),
        ('lattice-walk', lambda c, t: [(x.index, x.dindex, x.objects, x.properties, x.atoms) for x in c.lattice]),
        ('todict', lambda c, t: c.todict()),
        ('todict-nolattice', lambda c, t: c.todict(ignore_lattice=True)),
        ('dict-edit', dict_edit),
        ('tostring', lambda c, t: (c.tostring(), c.tostring(frmat='cxt'), str(c), repr(c))),
        ('definition-edit', definition_edit),
        ('relations', lambda c, t: str(c.relations(include_unary=True))),
        ('neighbors', lambda c, t: (c.neighbors(c.objects[:1]), c.neighbors([], raw=True))),
        ('lookup', lambda c, t: (c[list(c.objects[:1])], c[list(c.properties[:1])], c[()])),
        ('derive', lambda c, t: (c.intension(c.objects), c.extension(c.properties),
                                 c.intension([], raw=True), c.extension([], raw=True))),
        ('pickle', lambda c, t: pickle.loads(pickle.dumps(c)).lattice),
        ('deepcopy', lambda c, t: copy.deepcopy(c).lattice[0].upper_neighbors),
        ('eq', lambda c, t: (c == t, c != t, c == copy.copy(c))),
        ('numbers', lambda c, t: (c.crc32(), c.shape, c.fill_ratio)),
        ('bools-edit', bools_edit),
        ('half-iter', half_iter),
        ('fcbo', lambda c, t: (list(algorithms.fast_generate_from(c)), list(algorithms.fcbo_dual(c)))),
        ('graphviz', lambda c, t: c.lattice.graphviz().source),
        ('join-meet', lambda c, t: (c.lattice.join([]), c.lattice.meet([]), c.lattice.supremum & c.lattice.infimum,
                                    list(c.lattice.upset_union(c.lattice.atoms)))),
        ('twin-lattice', lambda c, t: (len(t.lattice), t.lattice.graphviz().source, t.todict())),
    ]


_PRELUDE = None


def prelude(context, twin, case):
    """History before the checked queries: a case-derived choice of 0-3 OTHER public calls on the same context.

    What a context answers may not depend on what it (or a context with equal labels) was asked before; values it
    returned earlier may be modified by the caller.  Nothing is checked here and exceptions are swallowed - the
    property checks that follow judge the library.  The choice is a pure function of the case, so replays repeat it.
    """
    global _PRELUDE
    import random
    import zlib
    n, m = len(case['o']), len(case['p'])
    if n * m > 900:
        return
    if _PRELUDE is None:
        _PRELUDE = _prelude_calls()
    rnd = random.Random(zlib.crc32(repr((case['o'], case['p'], case['r'])).encode()))
    k = rnd.choice((0, 0, 0, 1, 2, 3))
    import warnings
    for name, fn in rnd.sample(_PRELUDE, k):
        PRELUDE_COUNTS[name] = PRELUDE_COUNTS.get(name, 0) + 1
        try:
            with warnings.catch_warnings():
                warnings.simplefilter('ignore')   # e.g. the graphviz package about labels ending in a backslash
                fn(context, twin)
        except Exception:  # noqa: BLE001 - history only
            PRELUDE_COUNTS['raised'] = PRELUDE_COUNTS.get('raised', 0) + 1


class Maps:
    """Label <-> position maps of a table case."""

    def __init__(self, case):
        self.o = case['o']
        self.p = case['p']
        self.opos = {l: i for i, l in enumerate(self.o)}
        self.ppos = {l: j for j, l in enumerate(self.p)}

    def omask(self, labels):
        m = 0
        for l in labels:
            m |= 1 << self.opos[l]
        return m

    def pmask(self, labels):
        m = 0
        for l in labels:
            m |= 1 << self.ppos[l]
        return m

    def olabels(self, mask):
        return tuple(self.o[i] for i in positions(mask))

    def plabels(self, mask):
        return tuple(self.p[j] for j in positions(mask))


def table_classes(case, ref=None):
    """Cheap shape classes of a table (for the evidence histogram)."""
    n, m, rows = len(case['o']), len(case['p']), case['r']
    full = (1 << m) - 1
    cl = []
    if len(set(rows)) < n:
        cl.append('dup_rows')
    if full in rows:
        cl.append('full_row')
    if 0 in rows:
        cl.append('empty_row')
    inter = full
    union = 0
    for r in rows:
        inter &= r
        union |= r
    if inter:
        cl.append('full_col')
    if union != full:
        cl.append('empty_col')
    if n > 64 or m > 64:
        cl.append('wide')
    if 'f' in case:
        cl.append('fam:' + case['f'].rstrip('T').split('+')[0])
    return cl


def size_bucket(k):
    if k <= 2:
        return 'concepts<=2'
    if k <= 3:
        return 'concepts=3'
    if k <= 8:
        return 'concepts4-8'
    if k <= 32:
        return 'concepts9-32'
    if k <= 128:
        return 'concepts33-128'
    return 'concepts>128'


def strip(case):
    """The case without bookkeeping keys (what is hashed and stored)."""
    return {k: case[k] for k in ('o', 'p', 'r')}


def reference_dict(case, with_lattice=True):
    """The documented index-based encoding computed from the reference model (nested lists)."""
    from .oracle import shortlex_key, longlex_key
    m = len(case['p'])
    d = {'objects': list(case['o']), 'properties': list(case['p']),
         'context': [[j for j in range(m) if r >> j & 1] for r in case['r']]}
    if with_lattice:
        ref = Ref.of(case)
        upper, lower = ref.covers()
        cs = ref.concepts
        d['lattice'] = [[list(positions(e)), list(positions(i)),
                         sorted(upper[k], key=lambda t: shortlex_key(cs[t][0])),
                         sorted(lower[k], key=lambda t: longlex_key(cs[t][0]))] for k, (e, i) in enumerate(cs)]
    return d


def wreck(value):
    """Destroy a value the library returned, in place, as far as it is mutable (lists, dicts, sets; one level down).

    What the library hands out belongs to the caller; later answers may not depend on what the caller did to it."""
    if isinstance(value, list):
        for item in value[:3]:
            if isinstance(item, (list, dict, set)):
                wreck(item)
        value.reverse()
        if value:
            value.pop()
        value.append('wrecked')
    elif isinstance(value, dict):
        for item in list(value.values())[:4]:
            if isinstance(item, (list, dict, set)):
                wreck(item)
        for key in list(value)[:1]:
            del value[key]
        value['wrecked'] = True
    elif isinstance(value, set):
        value.clear()
        value.add('wrecked')
    return value


def listify(x):
    if isinstance(x, (list, tuple)):
        return [listify(v) for v in x]
    if isinstance(x, dict):
        return {k: listify(v) for k, v in x.items()}
    return x


def interfere(case):
    """Create a few OTHER contexts (other object / property counts, partly equal labels) and ask them everything.

    Nothing is checked here.  The point is the history: whatever the library memoises while answering these
    queries (per class, per module, per label tuple, per integer value of a bitset) must not influence the
    answers of the objects a check verifies before and after this call.
    """
    import concepts
    n, m = len(case['o']), len(case['p'])
    rows = case['r']
    variants = []
    # one more object (extra row = complement pattern), same properties
    variants.append((case['o'] + ['extra-o'], case['p'], rows + [((1 << m) - 1) ^ (rows[0] if rows else 0)]))
    # one property fewer / one more
    if m > 1:
        variants.append((case['o'], case['p'][:-1], [r & ((1 << (m - 1)) - 1) for r in rows]))
    variants.append((case['o'], case['p'] + ['extra-p'], [r | ((i & 1) << m) for i, r in enumerate(rows)]))
    # fewer objects
    if n > 1:
        variants.append((case['o'][1:], case['p'], rows[1:]))
    for o, p, rs in variants:
        try:
            ctx_ = concepts.Context(o, p, gen.bools_of({'o': o, 'p': p, 'r': rs}))
            lat = ctx_.lattice
            members = list(lat)[:12]
            for x in members:
                list(x.upset()), list(x.downset()), x.atoms
                # minimal()/attributes() enumerate the powerset of the intent; its size is taken from the rows,
                # not from the library (a wrong x.intent must not turn this helper into an hour of enumeration)
                shared = (1 << len(p)) - 1
                for name in x.extent:
                    shared &= rs[o.index(name)] if name in o else 0
                if len(p) <= 8 or (bin(shared).count('1') <= 8 and len(x.intent) <= 8):
                    x.minimal(), list(x.attributes())
                ctx_.neighbors(x.extent)
                if x.extent:
                    lat[x.extent]
                lat(x.intent)
                for y in members:
                    x | y, x & y, x <= y, x < y
                    x.incompatible_with(y), x.complement_of(y), x.subcontrary_with(y), x.orthogonal_to(y)
                    lat.join([x, y]), lat.meet([x, y])
                    list(lat.upset_union([x, y])), list(lat.downset_union([x, y]))
            ctx_.relations(), str(ctx_.relations(include_unary=True)), ctx_.tostring(), ctx_.crc32()
            d = ctx_.todict()
            concepts.Context.fromdict(d, raw=True).lattice
            lat.graphviz()
            for name in o[:3]:
                ctx_.intension([name]), ctx_[[name]]
            for name in p[:3]:
                ctx_.extension([name]), ctx_[[name]]
            from concepts import algorithms
            list(algorithms.fast_generate_from(ctx_)), list(algorithms.fcbo_dual(ctx_))
        except Exception:  # noqa: BLE001 - interference only; the property checks themselves judge the library
            pass
