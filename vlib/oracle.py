"""Reference model of Formal Concept Analysis, written from the definitions.

Sets of objects/properties are plain Python ints used as sets of *positions*
(bit i = position i); the only operations are ``&``, ``|``, comparison and
membership tests in explicit loops -- none of the trailing-zero skipping,
canonicity tests or heaps of the library.  ``SetRef`` restates everything with
``frozenset`` and is compared with ``Ref`` by ``selftest()``.
"""

import itertools


def positions(mask):
    out = []
    i = 0
    while mask:
        if mask & 1:
            out.append(i)
        mask >>= 1
        i += 1
    return tuple(out)


def popcount(x):
    return bin(x).count('1')


def shortlex_key(mask):
    return (popcount(mask), positions(mask))


def longlex_key(mask):
    return (-popcount(mask), positions(mask))


class Ref:
    """Brute-force concept lattice of an n x m table given as row ints."""

    def __init__(self, n, m, rows):
        self.n, self.m, self.rows = n, m, list(rows)
        self.full_o = (1 << n) - 1
        self.full_p = (1 << m) - 1
        self.cols = [sum(((rows[i] >> j) & 1) << i for i in range(n)) for j in range(m)]
        self._concepts = None

    @classmethod
    def of(cls, case):
        return cls(len(case['o']), len(case['p']), case['r'])

    # derivations, by definition
    def intent_of(self, A):
        b = self.full_p
        for i in range(self.n):
            if A >> i & 1:
                b &= self.rows[i]
        return b

    def extent_of(self, B):
        a = 0
        for i in range(self.n):
            if self.rows[i] & B == B:
                a |= 1 << i
        return a

    def close_o(self, A):
        return self.extent_of(self.intent_of(A))

    def close_p(self, B):
        return self.intent_of(self.extent_of(B))

    # all concepts: the intents are the intersections of rows, plus the full set
    @property
    def concepts(self):
        if self._concepts is None:
            intents = {self.full_p}
            for r in self.rows:
                intents |= {b & r for b in intents}
            cs = [(self.extent_of(b), b) for b in intents]
            cs.sort(key=lambda c: shortlex_key(c[0]))
            self._concepts = cs
            self.index = {c[0]: k for k, c in enumerate(cs)}
            self._covers = None
        return self._concepts

    def concept_set(self):
        return set(self.concepts)

    def leq(self, a, b):
        """concept index a <= concept index b (extent inclusion)."""
        ea, eb = self.concepts[a][0], self.concepts[b][0]
        return ea & eb == ea

    def covers(self):
        """(upper, lower): per concept the sorted index lists of upper/lower covers.

        j covers i iff i < j and nothing lies strictly between.  Candidates above i are visited by increasing
        extent size; j is a cover iff no already accepted cover of i lies strictly below j (anything strictly
        between i and j is above some cover of i).  selftest() compares this with the literal definition."""
        cs = self.concepts
        if self._covers is None:
            k = len(cs)
            ext = [c[0] for c in cs]            # shortlex: non-decreasing size
            upper = []
            for i in range(k):
                ups = []
                for j in range(i + 1, k):
                    if ext[i] & ext[j] == ext[i] and ext[i] != ext[j]:
                        if not any(ext[c] & ext[j] == ext[c] for c in ups):
                            ups.append(j)
                upper.append(ups)
            lower = [[] for _ in range(k)]
            for i, ups in enumerate(upper):
                for j in ups:
                    lower[j].append(i)
            self._covers = (upper, lower)
        return self._covers

    def covers_by_definition(self):
        cs = self.concepts
        k = len(cs)
        ext = [c[0] for c in cs]
        above = [[j for j in range(k) if j != i and ext[i] & ext[j] == ext[i]] for i in range(k)]
        upper = [[j for j in above[i] if not any(h != j and ext[h] & ext[j] == ext[h] for h in above[i])]
                 for i in range(k)]
        lower = [[] for _ in range(k)]
        for i, ups in enumerate(upper):
            for j in ups:
                lower[j].append(i)
        return upper, lower

    def covers_fast(self):
        """Covers for large lattices: the upper covers of an extent A are the inclusion-minimal sets among the
        closures of A + {g} (g not in A).  Cross-checked against the search-based covers() by selftest()."""
        cs = self.concepts
        upper = []
        for ext, _ in cs:
            cands = {self.close_o(ext | 1 << g) for g in range(self.n) if not ext >> g & 1}
            mins = [c for c in cands if not any(d != c and d & c == d for d in cands)]
            upper.append(sorted(self.index[c] for c in mins))
        lower = [[] for _ in cs]
        for i, ups in enumerate(upper):
            for j in ups:
                lower[j].append(i)
        return upper, lower

    def dindex(self):
        """concept index -> position in longlex order."""
        order = sorted(range(len(self.concepts)), key=lambda k: longlex_key(self.concepts[k][0]))
        return {k: d for d, k in enumerate(order)}

    def upset(self, i):
        return [j for j in range(len(self.concepts)) if self.leq(i, j)]

    def downset(self, i):
        return [j for j in range(len(self.concepts)) if self.leq(j, i)]

    def join(self, idxs):
        """Least upper bound, found by search among all concepts."""
        cs = self.concepts
        ubs = [j for j in range(len(cs)) if all(self.leq(i, j) for i in idxs)]
        least = [j for j in ubs if all(self.leq(j, h) for h in ubs)]
        assert len(least) == 1, (idxs, ubs, least)
        return least[0]

    def meet(self, idxs):
        cs = self.concepts
        lbs = [j for j in range(len(cs)) if all(self.leq(j, i) for i in idxs)]
        greatest = [j for j in lbs if all(self.leq(h, j) for h in lbs)]
        assert len(greatest) == 1, (idxs, lbs, greatest)
        return greatest[0]

    def object_concept(self, i):
        return self.index[self.close_o(1 << i)]

    def attribute_concept(self, j):
        return self.index[self.extent_of(1 << j)]

    def labels(self):
        """(objects_at, properties_at): concept index -> sorted positions of reduced labels."""
        self.concepts
        objs = {}
        props = {}
        for i in range(self.n):
            objs.setdefault(self.object_concept(i), []).append(i)
        for j in range(self.m):
            props.setdefault(self.attribute_concept(j), []).append(j)
        return objs, props

    def generators(self, k):
        """Subsets of the intent of concept k whose extension is its extent, shortlex by position."""
        ext, intent = self.concepts[k]
        pos = positions(intent)
        out = []
        for size in range(len(pos) + 1):
            for combo in itertools.combinations(pos, size):
                b = 0
                for j in combo:
                    b |= 1 << j
                if self.extent_of(b) == ext:
                    out.append(combo)
        return out


class SetRef:
    """The same with frozensets, straight from the textbook (for the self-test)."""

    def __init__(self, n, m, rows):
        self.G = range(n)
        self.M = range(m)
        self.I = {(g, a) for g in range(n) for a in range(m) if rows[g] >> a & 1}

    def up(self, A):
        return frozenset(a for a in self.M if all((g, a) in self.I for g in A))

    def down(self, B):
        return frozenset(g for g in self.G if all((g, a) in self.I for a in B))

    def concepts(self):
        out = set()
        for r in range(len(self.G) + 1):
            for A in itertools.combinations(self.G, r):
                B = self.up(A)
                out.add((self.down(B), B))
        return out


def selftest():
    """Compare Ref with SetRef on a fixed battery; raise AssertionError on disagreement."""
    battery = []
    for n, m in [(1, 1), (2, 2), (3, 3), (3, 4), (4, 3)]:
        total = 1 << (n * m)
        step = max(1, total // 97)
        for t in range(0, total, step):
            battery.append((n, m, [(t >> (i * m)) & ((1 << m) - 1) for i in range(n)]))
    battery.append((6, 6, [0b111110, 0b111101, 0b111011, 0b110111, 0b101111, 0b011111]))
    battery.append((5, 3, [0b001, 0b011, 0b111, 0b000, 0b011]))
    for n, m, rows in battery:
        ref = Ref(n, m, rows)
        sr = SetRef(n, m, rows)
        got = {(frozenset(positions(a)), frozenset(positions(b))) for a, b in ref.concepts}
        assert got == sr.concepts(), (n, m, rows)
        assert len(got) == len(ref.concepts)
        upper, lower = ref.covers()
        fu, fl = ref.covers_fast()
        assert [sorted(x) for x in upper] == fu and [sorted(x) for x in lower] == [sorted(x) for x in fl], (n, m, rows)
        du, dl = ref.covers_by_definition()
        assert [sorted(x) for x in upper] == [sorted(x) for x in du] and lower == dl, (n, m, rows)
        for i, (a, b) in enumerate(ref.concepts):
            assert ref.intent_of(a) == b and ref.extent_of(b) == a
            for j in upper[i]:
                assert ref.leq(i, j) and i != j
                assert not any(h not in (i, j) and ref.leq(i, h) and ref.leq(h, j)
                               for h in range(len(ref.concepts)))
    return len(battery)
