"""Shared runner: sharding, seeding, merging, evidence, replay files, exit codes.

Contract (see DESIGN.md 2.2):

* a check module exposes ``PROPERTY``, ``RULE``, ``plan(tier, seed) -> [task]``,
  ``run(task, ctx)`` and ``replay(case, ctx)``;
* a *task* is a JSON-able dict executed in a fresh worker process
  (``maxtasksperchild=1``: the ``bitsets`` class registry never shrinks);
* exit 0 = held; exit 1 + ``VIOLATION property=<id> replay=<path>``;
  exit 2 = harness error / inconclusive (never a violation).
"""

import base64
import collections
import hashlib
import importlib
import json
import multiprocessing
import pickle
import os
import signal
import sys
import time
import traceback

VERIF = os.path.dirname(os.path.dirname(os.path.abspath(__file__)))
REPO = os.path.abspath(os.environ.get('VERIF_REPO', '/repo'))
DEPS = os.path.join(VERIF, '.deps')

SHRINK_BUDGET = {'quick': 25, 'thorough': 180}   # seconds of shrinking after the first failure of a shard
TASK_WALL_LIMIT = 3 * 3600   # a whole worker task (thousands of cases); far above any honest run
SETTLED_GRACE = 45
CASE_CPU_LIMIT = int(os.environ.get('VERIF_CASE_CPU_LIMIT', '600'))  # CPU seconds for ONE case that normally takes milliseconds (hit: see Ctx.hang_entry)


def bootstrap():
    """Put the repository working tree (and optional vendored deps) first on sys.path."""
    import warnings
    warnings.filterwarnings('ignore', module='graphviz')   # the graphviz package warns about labels ending in a backslash
    if os.path.isdir(DEPS) and DEPS not in sys.path:
        sys.path.insert(1, DEPS)
    if REPO not in sys.path:
        sys.path.insert(0, REPO)
    if VERIF not in sys.path:
        sys.path.insert(1, VERIF)
    import concepts
    here = os.path.abspath(concepts.__file__)
    if not here.startswith(REPO + os.sep):
        raise HarnessError(f'concepts imported from {here}, expected under {REPO}')
    return concepts


class HarnessError(Exception):
    pass


class Violation(Exception):
    """The property is violated on ``case`` (observed at ``site``)."""

    def __init__(self, site, case, message):
        super().__init__(f'{site}: {message}')
        self.site = site
        self.case = case
        self.message = message


class Hang(KeyboardInterrupt):
    """Raised by the CPU-time watchdog; KeyboardInterrupt so Hypothesis lets it through."""


def case_hash(case):
    blob = json.dumps(case, sort_keys=True, separators=(',', ':'), default=str)
    return int.from_bytes(hashlib.blake2b(blob.encode('utf-8'), digest_size=8).digest(), 'big')


def from_library(exc):
    """True if the traceback of ``exc`` passes through the package under test.

    Frames of the ``bitsets`` package count as well: the checks never build bitsets themselves, they only call
    methods of objects the library returned, so an exception there means the library handed out a broken object.
    """
    pkg = os.path.join(REPO, 'concepts') + os.sep
    tb = exc.__traceback__
    while tb is not None:
        fn = os.path.abspath(tb.tb_frame.f_code.co_filename)
        if fn.startswith(pkg) or (os.sep + 'bitsets' + os.sep) in fn:
            return True
        tb = tb.tb_next
    return False


class Ctx:
    """Per-task collector handed to ``module.run``."""

    MAX_SAMPLES = 4

    def __init__(self, prop, task, tier, seed):
        self.prop = prop
        self.task = task
        self.tier = tier
        self.seed = seed
        self.evaluations = 0
        self.nontrivial = set()
        self.classes = collections.Counter()
        self.samples = []
        self._sample_classes = set()
        self.violations = []
        self.hyp_examples = 0
        self.extra = collections.Counter()
        self._current = None

    # -- recording -------------------------------------------------------
    def case(self, case, nontrivial, classes=()):
        """Record one oracle execution on ``case``."""
        self.evaluations += 1
        self._current = case
        tick()
        for c in classes:
            self.classes[c] += 1
        if nontrivial:
            if callable(case):
                case = case()
            self.nontrivial.add(case_hash(case))
            if len(self.samples) < self.MAX_SAMPLES:
                key = tuple(sorted(classes))
                if key not in self._sample_classes or len(self.samples) < 2:
                    self._sample_classes.add(key)
                    self.samples.append(case)

    def count(self, key, n=1):
        self.extra[key] += n

    def fail(self, site, case, message):
        raise Violation(site, case, message)

    def check(self, cond, site, case, message):
        if not cond:
            if callable(message):
                message = message()
            if callable(case):
                case = case()
            raise Violation(site, case, message)

    def call(self, site, case, fn, *args, **kwargs):
        """Call into the library; an exception raised there violates 'must be handled'."""
        try:
            return fn(*args, **kwargs)
        except Violation:
            raise
        except Exception as e:  # noqa: BLE001
            if callable(case):
                case = case()
            raise Violation(site + '/raises:' + type(e).__name__, case,
                            f'{type(e).__name__}: {e}') from e

    def add_violation(self, v):
        self.violations.append({'site': v.site, 'case': v.case, 'message': v.message})

    # -- guarded execution -------------------------------------------------
    def guarded(self, fn, *args):
        """Run ``fn`` (one or many cases); convert library exceptions, keep harness errors."""
        try:
            with watchdog():
                fn(*args)
        except Violation as v:
            self.add_violation(v)
            return False
        except Hang as h:
            self.violations.append(self.hang_entry(h))
            return False
        except Exception as e:  # noqa: BLE001
            if from_library(e):
                self.violations.append({'site': 'raises:' + type(e).__name__ + '@' + innermost(e),
                                        'case': self.current_case(),
                                        'message': ''.join(traceback.format_exception_only(type(e), e)).strip()})
                return False
            raise
        return True

    # -- hypothesis ----------------------------------------------------------
    def hypothesis(self, body, strategy, max_examples, shard_seed, shrink=True):
        """Run ``body(value)`` under Hypothesis; a Violation is shrunk and recorded."""
        import hypothesis
        from hypothesis import HealthCheck, Phase, Verbosity, given, settings

        phases = [Phase.generate] + ([Phase.shrink] if shrink else [])
        last = {}
        ctx = self

        budget = SHRINK_BUDGET[self.tier]

        def test(value):
            ctx.hyp_examples += 1
            if 'since' in last and time.time() - last['since'] > budget:
                # shrinking budget used up: the verdict is settled, stop refining (the best case so far is kept)
                raise last['v']
            try:
                body(value)
            except Violation as v:
                last['v'] = v
                last.setdefault('since', time.time())
                raise
            except Hang:
                raise
            except Exception as e:  # noqa: BLE001
                if from_library(e):
                    v = Violation('raises:' + type(e).__name__ + '@' + innermost(e), ctx.current_case(),
                                  ''.join(traceback.format_exception_only(type(e), e)).strip())
                    last['v'] = v
                    last.setdefault('since', time.time())
                    raise v from e
                raise

        test = given(strategy)(test)
        test = hypothesis.seed(shard_seed)(test)
        test = settings(max_examples=max_examples, database=None, deadline=None,
                        derandomize=False, report_multiple_bugs=False, phases=phases,
                        verbosity=Verbosity.quiet,
                        suppress_health_check=list(HealthCheck))(test)
        try:
            with watchdog(total=True):
                test()
        except Violation:
            self.add_violation(last['v'])
            return False
        except Hang as h:
            self.violations.append(self.hang_entry(h))
            return False
        return True

    def hang_entry(self, exc):
        """A CPU-budget hit.  Site 'nontermination@<where>' (a violation) only if the budget was burnt inside the
        library on a small case - nothing the library does on a table with <= 20 properties takes minutes; anything
        else (big intents make minimal() / attributes() legitimately exponential, or the harness itself was busy) is
        the inconclusive site 'nontermination'."""
        case = self.current_case()
        site = 'nontermination'
        if from_library(exc) and small_case(case):
            site = 'nontermination@' + innermost(exc)
        return {'site': site, 'case': case, 'message': f'no result after {CASE_CPU_LIMIT} CPU seconds'}

    def current_case(self):
        cur = self._current
        return cur() if callable(cur) else cur

    def result(self):
        from . import lib
        for name, count in lib.PRELUDE_COUNTS.items():
            self.extra['prelude/' + name] = count
        return {'evaluations': self.evaluations,
                'nontrivial': sorted(self.nontrivial),
                'classes': dict(self.classes),
                'samples': self.samples,
                'violations': self.violations,
                'hyp_examples': self.hyp_examples,
                'extra': dict(self.extra),
                'error': None}


def small_case(case):
    try:
        if len(json.dumps(case, default=str)) > 4000:
            return False
    except (TypeError, ValueError):
        return False
    stack = [case]
    while stack:
        x = stack.pop()
        if isinstance(x, dict):
            if isinstance(x.get('p'), (list, tuple)) and len(x['p']) > 20:
                return False
            stack.extend(x.values())
        elif isinstance(x, (list, tuple)):
            stack.extend(v for v in x if isinstance(v, (dict, list, tuple)))
    return True


def innermost(exc):
    """'file.py:function' of the innermost frame inside the package under test."""
    pkg = os.path.join(REPO, 'concepts') + os.sep
    tb = exc.__traceback__
    found = '?'
    while tb is not None:
        fn = os.path.abspath(tb.tb_frame.f_code.co_filename)
        if fn.startswith(pkg):
            found = f'{fn[len(pkg):]}:{tb.tb_frame.f_code.co_name}'
        tb = tb.tb_next
    return found


class watchdog:
    """CPU-time alarm: a single case burning minutes of CPU is not a scheduling artefact."""

    def __init__(self, total=False):
        self.total = total

    def __enter__(self):
        def handler(signum, frame):
            raise Hang()
        self._old = signal.signal(signal.SIGPROF, handler)
        # 'total' guards a whole Hypothesis run: each example re-arms through tick()
        signal.setitimer(signal.ITIMER_PROF, CASE_CPU_LIMIT)
        return self

    def __exit__(self, *exc):
        signal.setitimer(signal.ITIMER_PROF, 0)
        signal.signal(signal.SIGPROF, self._old)
        return False


def tick():
    """Re-arm the watchdog (call between cases of a long task)."""
    signal.setitimer(signal.ITIMER_PROF, CASE_CPU_LIMIT)


# ---------------------------------------------------------------------------
# worker side

def _worker(args):
    modname, task, tier, seed = args
    os.environ.setdefault('PYTHONHASHSEED', '0')
    if task.get('python_O') and not sys.flags.optimize:
        return _worker_optimised(modname, task, tier, seed)
    trace = os.environ.get('VERIF_TRACE')
    t0 = time.time()
    if trace:
        sys.stderr.write(f'[{os.getpid()}] start {task}\n')
    try:
        bootstrap()
        module = importlib.import_module(modname)
        ctx = Ctx(module.PROPERTY, task, tier, seed)
        module.run(task, ctx)
        if trace:
            sys.stderr.write(f'[{os.getpid()}] done {time.time() - t0:.1f}s {task}\n')
        return ctx.result()
    except BaseException as e:  # noqa: BLE001
        return {'evaluations': 0, 'nontrivial': [], 'classes': {}, 'samples': [],
                'violations': [], 'hyp_examples': 0, 'extra': {},
                'error': f'task {task!r}\n' + ''.join(traceback.format_exception(type(e), e, e.__traceback__))}


def _worker_optimised(modname, task, tier, seed):
    """Run the task in a child interpreter started with -O (asserts stripped, __debug__ False).

    The library's results may not depend on the interpreter's optimisation mode; the check bodies use ctx.check,
    not assert, so they judge the library there exactly as here."""
    import subprocess
    cmd = [sys.executable, '-O', os.path.join(VERIF, 'run_check.py'), modname.rsplit('.', 1)[1].upper(), '--tier', tier,
           '--worker-task', json.dumps([modname, task, tier, seed])]
    env = dict(os.environ, PYTHONHASHSEED='0', VERIF_SEED=str(seed), PYTHONDONTWRITEBYTECODE='1')
    p = subprocess.run(cmd, cwd=VERIF, env=env, capture_output=True)
    marker = p.stdout.rfind(b'@@RESULT@@')
    if marker < 0:
        return _error_result(f'task {task!r}: python -O child gave no result (exit {p.returncode}): '
                             + p.stderr.decode('utf-8', 'replace')[-1500:])
    res = pickle.loads(base64.b64decode(p.stdout[marker + len(b'@@RESULT@@'):].strip()))
    for v in res['violations']:
        v['python_O'] = True
        v['message'] = '[under python -O] ' + v['message']
    res['extra'] = dict(res['extra'], python_O_tasks=1, python_O_evaluations=res['evaluations'])
    return res


def optimised_copies(tasks):
    """Up to two cheap tasks of the plan, to be repeated under ``python -O``."""
    out = []
    hyp = [t for t in tasks if t.get('kind') == 'hyp' and t.get('profile') in (None, 'small')]
    other = [t for t in tasks if t.get('kind') != 'hyp']
    if other and other[-1].get('kind') == 'exhaustive':
        other = [other[len(other) // 2]]   # a middling block of tables rather than the 1x1 shape
    for t in (hyp[-1:] + other[-1:]) or tasks[-1:]:
        t2 = dict(t, python_O=True)
        if 'examples' in t2:
            t2['examples'] = min(t2['examples'], 60)
        if 'seed' in t2:
            t2['seed'] = t2['seed'] + 7777
        out.append(t2)
    return out


def _child(conn, args):
    try:
        res = _worker(args)
        conn.send(res)
        conn.close()
    finally:
        os._exit(0)


def _error_result(text):
    return {'evaluations': 0, 'nontrivial': [], 'classes': {}, 'samples': [], 'violations': [],
            'hyp_examples': 0, 'extra': {}, 'error': text}


def run_tasks(work, jobs, settled=lambda: False):
    """Run every task in a forked process of its own (at most ``jobs`` at a time) and yield the results.

    One process per task because the bitsets package keeps every generated class alive.  A child that dies
    without a result, or that exceeds the wall-clock limit, yields an error result (run inconclusive, exit 2) -
    the parent can never wait forever.  Once a violation is on record (``settled()``), tasks still running get
    SETTLED_GRACE more seconds: the verdict cannot change any more, only the list of sites could grow.
    """
    from multiprocessing import connection
    mp = multiprocessing.get_context('fork')
    queue = list(reversed(work))
    running = {}   # sentinel -> (process, conn, args, started)
    settled_at = None
    while queue or running:
        while queue and len(running) < jobs and settled_at is None:
            args = queue.pop()
            parent_conn, child_conn = mp.Pipe(duplex=False)
            proc = mp.Process(target=_child, args=(child_conn, args))
            proc.start()
            child_conn.close()
            running[proc.sentinel] = (proc, parent_conn, args, time.time())
        if settled_at is not None and queue:
            queue.clear()   # verdict settled: do not start further tasks
        if not running:
            break
        ready = connection.wait([c for _, c, _, _ in running.values()] + list(running), timeout=5)
        now = time.time()
        for sentinel, (proc, conn, args, started) in list(running.items()):
            done = False
            if conn in ready or conn.poll(0):
                try:
                    yield conn.recv()
                except (EOFError, OSError, pickle.UnpicklingError):
                    proc.join(5)
                    yield _error_result(f'task {args[1]!r}: worker exited (code {proc.exitcode}) without a result')
                done = True
            elif sentinel in ready and not conn.poll(0):
                proc.join(5)
                yield _error_result(f'task {args[1]!r}: worker exited (code {proc.exitcode}) without a result')
                done = True
            elif now - started > TASK_WALL_LIMIT:
                yield _error_result(f'INCONCLUSIVE: task {args[1]!r} exceeded {TASK_WALL_LIMIT} s wall clock; stopped')
                done = True
            elif settled_at is not None and now - settled_at > SETTLED_GRACE:
                done = True   # dropped silently: a violation is already reported
            if done:
                if proc.is_alive():
                    proc.kill()
                proc.join(10)
                conn.close()
                del running[sentinel]
        if settled_at is None and settled():
            settled_at = time.time()


# ---------------------------------------------------------------------------
# known findings

def load_known(prop):
    """Return (known, fixed) entries for ``prop`` from known_findings.txt."""
    known, fixed = [], []
    path = os.path.join(VERIF, 'known_findings.txt')
    if not os.path.exists(path):
        return known, fixed
    for line in open(path, encoding='utf-8'):
        line = line.strip()
        if not line or line.startswith('#'):
            continue
        kind, _, rest = line.partition(':')
        rest = rest.strip()
        if f'property={prop} ' not in rest + ' ':
            continue
        if kind == 'known':
            fields = dict(f.split('=', 1) for f in rest.split() if '=' in f)
            known.append({'site': fields.get('site'), 'text': rest})
        elif kind == 'fixed':
            fixed.append(rest)
    return known, fixed


# ---------------------------------------------------------------------------
# parent side

def write_replay(prop, viol, tier, seed):
    d = os.path.join(VERIF, 'replays', prop)
    os.makedirs(d, exist_ok=True)
    blob = json.dumps({'property': prop, 'site': viol['site'], 'case': viol['case'],
                       'message': viol['message'], 'tier': tier, 'seed': seed,
                       **({'python_O': True} if viol.get('python_O') else {})},
                      indent=1, sort_keys=True, default=str)
    name = hashlib.sha1(json.dumps([viol['site'], viol['case']], sort_keys=True,
                                   default=str).encode()).hexdigest()[:16] + '.json'
    path = os.path.join(d, name)
    with open(path, 'w', encoding='utf-8') as f:
        f.write(blob + '\n')
    return os.path.relpath(path, VERIF)


def run_replay(module, path):
    bootstrap()
    doc = json.load(open(path, encoding='utf-8'))
    if doc.get('python_O') and not sys.flags.optimize:
        import subprocess
        p = subprocess.run([sys.executable, '-O', os.path.join(VERIF, 'run_check.py'), doc['property'], '--replay', path],
                           cwd=VERIF, env=dict(os.environ, PYTHONHASHSEED='0'), capture_output=True, text=True)
        ctx = Ctx(module.PROPERTY, {'kind': 'replay'}, 'quick', int(doc.get('seed') or 0))
        if p.returncode == 1:
            ctx.violations.append({'site': doc['site'], 'case': doc['case'],
                                   'message': '[under python -O] ' + ' | '.join(l.strip() for l in p.stdout.splitlines()
                                                                                if l.startswith('  '))})
        elif p.returncode != 0:
            raise HarnessError('python -O replay failed: ' + p.stdout[-800:] + p.stderr[-800:])
        return p.returncode == 0, ctx
    ctx = Ctx(module.PROPERTY, {'kind': 'replay'}, 'quick', int(doc.get('seed') or 0))
    ok = ctx.guarded(module.replay, doc['case'], ctx)
    return ok, ctx


def main(argv=None):
    import argparse
    ap = argparse.ArgumentParser()
    ap.add_argument('property')
    ap.add_argument('--tier', default=os.environ.get('VERIF_TIER', 'quick'), choices=['quick', 'thorough'])
    ap.add_argument('--replay')
    ap.add_argument('--jobs', type=int, default=int(os.environ.get('VERIF_JOBS', '16')))
    ap.add_argument('--no-evidence', action='store_true')
    ap.add_argument('--worker-task', help=argparse.SUPPRESS)   # internal: run one task in this interpreter, pickle the result
    args = ap.parse_args(argv)
    if args.worker_task:
        res = _worker(tuple(json.loads(args.worker_task)))
        sys.stdout.buffer.write(b'\n@@RESULT@@' + base64.b64encode(pickle.dumps(res)) + b'\n')
        return 0

    prop = args.property.upper()
    seed = int(os.environ.get('VERIF_SEED', '1') or 1)
    tier = args.tier
    if os.environ.get('PYTHONHASHSEED') is None:
        # string hashing must be pinned for this process too (forked workers inherit its hash secret)
        os.environ['PYTHONHASHSEED'] = '0'
        os.execv(sys.executable, [sys.executable] + sys.argv)
    t0 = time.time()

    try:
        bootstrap()
        modname = f'checks.{prop.lower()}'
        module = importlib.import_module(modname)
    except Exception:  # noqa: BLE001
        traceback.print_exc()
        print(f'HARNESS-ERROR property={prop} cannot import check or library')
        return 2

    try:
        from vlib import oracle
        oracle.selftest()
    except Exception:  # noqa: BLE001
        traceback.print_exc()
        print(f'HARNESS-ERROR property={prop} reference model self-test failed')
        return 2

    if args.replay:
        try:
            ok, ctx = run_replay(module, args.replay)
        except Exception:  # noqa: BLE001
            traceback.print_exc()
            return 2
        if ok:
            print(f'replay {args.replay}: property held')
            return 0
        for v in ctx.violations:
            print(f'  {v["site"]}: {v["message"]}')
        print(f'VIOLATION property={prop} replay={args.replay}')
        return 1

    known, fixed = load_known(prop)
    violations = []
    errors = []

    # 1. committed regressions (seconds-long replay tier)
    regress_dir = os.path.join(VERIF, 'replays', 'regress')
    n_regress = 0
    if os.path.isdir(regress_dir):
        for name in sorted(os.listdir(regress_dir)):
            if not name.startswith(prop + '_') or not name.endswith('.json'):
                continue
            n_regress += 1
            path = os.path.join(regress_dir, name)
            try:
                ok, ctx = run_replay(module, path)
            except Exception:  # noqa: BLE001
                errors.append(traceback.format_exc())
                continue
            if not ok:
                for v in ctx.violations:
                    v = dict(v)
                    v['regress'] = os.path.relpath(path, VERIF)
                    violations.append(v)

    # 2. generated search
    tasks = module.plan(tier, seed)
    tasks = tasks + optimised_copies(tasks)
    merged = {'evaluations': 0, 'nontrivial': set(), 'classes': collections.Counter(),
              'samples': [], 'hyp_examples': 0, 'extra': collections.Counter()}
    work = [(modname, t, tier, seed) for t in tasks]
    quiet_sites = {'nontermination'} | {k['site'] for k in known}
    jobs = max(1, min(args.jobs, len(work)))
    for res in run_tasks(work, jobs, settled=lambda: any(v['site'] not in quiet_sites for v in violations)):
        if res['error']:
            errors.append(res['error'])
            continue
        merged['evaluations'] += res['evaluations']
        merged['nontrivial'].update(res['nontrivial'])
        merged['classes'].update(res['classes'])
        merged['extra'].update(res['extra'])
        merged['hyp_examples'] += res['hyp_examples']
        merged.setdefault('pending_samples', []).append(res['samples'])
        violations.extend(res['violations'])

    # samples: round-robin over the tasks so that they show different kinds of cases
    pending = sorted(merged.pop('pending_samples', []), key=lambda ss: json.dumps(ss, sort_keys=True, default=str))
    depth = 0
    while len(merged['samples']) < 10 and any(len(ss) > depth for ss in pending):
        for ss in pending:
            if len(ss) > depth and len(merged['samples']) < 10 and ss[depth] not in merged['samples']:
                merged['samples'].append(ss[depth])
        depth += 1

    # 3. classify violations: one line per site, smallest case first
    #    (a CPU-budget hit is reported, its case is saved, but it is 'inconclusive', never a violation)
    for v in [v for v in violations if v['site'] == 'nontermination']:
        path = write_replay(prop, v, tier, seed)
        errors.append(f'INCONCLUSIVE: a single case used more than {CASE_CPU_LIMIT} CPU seconds; case saved as {path}')
    violations = [v for v in violations if v['site'] != 'nontermination']
    by_site = {}
    for v in violations:
        key = v['site']
        size = len(json.dumps(v['case'], default=str))
        if key not in by_site or size < by_site[key][0]:
            by_site[key] = (size, v)
    new, known_hits = [], []
    for site, (_, v) in sorted(by_site.items()):
        hit = next((k for k in known if k['site'] == site), None)
        (known_hits if hit else new).append((v, hit))

    wall = time.time() - t0
    status = 0
    for v, hit in known_hits:
        print(f'KNOWN-FINDING: {hit["text"]}')
    for v, _ in new:
        path = v.get('regress') or write_replay(prop, v, tier, seed)
        print(f'  {v["site"]}: {v["message"][:400]}')
        print(f'VIOLATION property={prop} replay={path}')
        status = 1

    if errors:
        for e in errors[:3]:
            sys.stderr.write(e + '\n')
        print(f'HARNESS-ERROR property={prop} {len(errors)} task(s) failed (see stderr); run is inconclusive')
        if status == 0:
            status = 2

    if not args.no_evidence:
        write_evidence(module, prop, tier, seed, merged, len(new), wall, n_regress,
                       len(tasks), [h['text'] for _, h in known_hits], fixed)
    print(f'{prop} {tier}: evaluations={merged["evaluations"]} distinct_nontrivial={len(merged["nontrivial"])}'
          f' tasks={len(tasks)} wall={wall:.1f}s violations={len(new)}')
    return status


def write_evidence(module, prop, tier, seed, merged, n_viol, wall, n_regress, n_tasks, known_hits, fixed):
    coverage = {
        'evaluations': int(merged['evaluations']),
        'distinct_nontrivial': len(merged['nontrivial']),
        'rule': module.RULE,
        'samples': merged['samples'][:10],
        'classes': dict(sorted(merged['classes'].items())),
        'hypothesis_examples': int(merged['hyp_examples']),
        'tasks': n_tasks,
        'regress_replays': n_regress,
    }
    coverage.update({k: int(v) for k, v in merged['extra'].items()})
    if merged['extra'].get('exhaustive_tables'):
        coverage['exhaustive_part'] = (f"{int(merged['extra']['exhaustive_tables'])} tables: every boolean table up to the cell "
                                       "bound named in 'rule' for this tier was enumerated completely; all other cases are sampled "
                                       "(seeded by VERIF_SEED)")
    coverage['exhaustive'] = False
    if hasattr(module, 'coverage_extra'):
        coverage.update(module.coverage_extra(tier, seed))
    doc = {'property_id': prop, 'tier': tier, 'seed': seed, 'level': 'exploration',
           'coverage': coverage,
           'assumptions': list(getattr(module, 'ASSUMPTIONS', [])),
           'wall_s': round(wall, 2), 'violations': n_viol}
    if known_hits:
        doc['known_findings_hit'] = known_hits
    if fixed:
        doc['fixed_findings_listed'] = fixed
    os.makedirs(os.path.join(VERIF, 'evidence'), exist_ok=True)
    path = os.path.join(VERIF, 'evidence', f'{prop}.json')
    with open(path, 'w', encoding='utf-8') as f:
        json.dump(doc, f, indent=1, sort_keys=True, default=str)
        f.write('\n')


def atheris_task(ctx, prop, runs, seed):
    """Thorough-tier deepening: drive the check body through atheris (coverage-guided); optional, never deciding."""
    import shutil
    import subprocess
    import tempfile
    if not os.path.isdir(os.path.join(DEPS, 'atheris')):
        ctx.count('atheris_unavailable', 1)
        return
    base = os.path.join(VERIF, '.work')
    os.makedirs(base, exist_ok=True)
    work = tempfile.mkdtemp(prefix='atheris-', dir=base)
    try:
        replay, stats = os.path.join(work, 'replay.json'), os.path.join(work, 'stats.json')
        env = dict(os.environ, VERIF_REPO=REPO, PYTHONHASHSEED='0', VERIF_SEED=str(ctx.seed))
        p = subprocess.run([sys.executable, os.path.join(VERIF, 'vlib', 'fuzz_target.py'), prop, replay, stats,
                            f'-runs={runs}', f'-seed={seed}', '-max_len=2048', '-len_control=0', '-timeout=600'],
                           cwd=work, env=env, capture_output=True, text=True)
        if os.path.exists(stats):
            st = json.load(open(stats))
            ctx.evaluations += st['evaluations']
            ctx.nontrivial.update(st['nontrivial'])
            ctx.count('atheris_executions', st['executions'])
        if os.path.exists(replay):
            v = json.load(open(replay))
            ctx.violations.append({'site': 'atheris/' + v['site'], 'case': v['case'], 'message': v['message']})
        elif p.returncode != 0:
            raise HarnessError(f'atheris target failed rc={p.returncode}: {p.stderr[-1500:]}')
    finally:
        shutil.rmtree(work, ignore_errors=True)
