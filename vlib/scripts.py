"""Interpreter of JSON call scripts (C17): every step appends lines to a transcript.

A script is ``{'steps': [[name, arg, ...], ...]}``; objects created by steps live in a
name space.  Nothing here iterates a ``set`` or ``dict`` of its own; everything printed
comes from the library (or is the exception it raised).
"""

import io
import re

ADDRESS = re.compile(r'0x[0-9a-fA-F]+')


def execute(script):
    import concepts
    from vlib import defmodel as dm
    env = {}
    out = []

    def emit(tag, value):
        out.append(f'{tag}: ' + ADDRESS.sub('0x', value if isinstance(value, str) else repr(value)))

    for n, step in enumerate(script['steps']):
        name, args = step[0], step[1:]
        tag = f'{n}:{name}'
        try:
            if name == 'context':
                env[args[0]] = concepts.Context(args[1], args[2], [tuple(bool(v) for v in r) for r in args[3]])
                emit(tag, repr(env[args[0]]))
            elif name == 'definition':
                env[args[0]] = concepts.Definition(args[1], args[2], [tuple(bool(v) for v in r) for r in args[3]])
                emit(tag, repr(env[args[0]]))
            elif name == 'fromdict':
                env[args[0]] = concepts.Context.fromdict(args[1], **(args[2] if len(args) > 2 else {}))
                emit(tag, repr(env[args[0]]))
            else:
                obj = env.get(args[0])
                if obj is None:
                    emit(tag, 'missing')
                    continue
                if name == 'tostring':
                    emit(tag, obj.tostring(args[1], **(args[2] if len(args) > 2 else {})))
                elif name == 'str':
                    emit(tag, str(obj))
                elif name == 'todict':
                    emit(tag, repr(obj.todict()))
                elif name == 'tojson':
                    buf = io.StringIO()
                    obj.tojson(buf, **(args[1] if len(args) > 1 else {}))
                    emit(tag, buf.getvalue())
                elif name == 'lattice':
                    lat = obj.lattice
                    emit(tag, str(lat))
                    for c in lat:
                        emit(tag, f'{c.index} {c.dindex} {c!r} up={[u.index for u in c.upper_neighbors]} '
                                  f'lo={[l.index for l in c.lower_neighbors]} atoms={[a.index for a in c.atoms]} '
                                  f'obj={c.objects!r} prop={c.properties!r}')
                    emit(tag, f'atoms={[a.index for a in lat.atoms]}')
                elif name in ('upset_union', 'downset_union'):
                    lat = obj.lattice
                    seeds = [lat[i % len(lat)] for i in args[1]]
                    emit(tag, repr([c.index for c in getattr(lat, name)(seeds)]))
                elif name == 'upset_generalization':
                    lat = obj.lattice
                    seeds = []
                    for i in args[1]:
                        c = lat[i % len(lat)]
                        seeds.append(c)
                        seeds.extend(c.upper_neighbors[:1])      # a comparable pair
                    emit(tag, repr([c.index for c in lat.upset_generalization(seeds)]))
                elif name in ('join', 'meet'):
                    lat = obj.lattice
                    seeds = [lat[i % len(lat)] for i in args[1]]
                    emit(tag, repr(getattr(lat, name)(seeds)))
                elif name == 'upset':
                    lat = obj.lattice
                    c = lat[args[1] % len(lat)]
                    emit(tag, repr([x.index for x in c.upset()]) + repr([x.index for x in c.downset()]))
                elif name == 'relations':
                    rel = obj.relations(include_unary=bool(args[1]))
                    emit(tag, repr(rel))
                    emit(tag, str(rel))
                    emit(tag, rel.tostring())
                elif name == 'neighbors':
                    emit(tag, repr(obj.neighbors(args[1])))
                elif name == 'attributes':
                    lat = obj.lattice
                    c = lat[args[1] % len(lat)]
                    emit(tag, repr(list(c.attributes())[:50]) + repr(c.minimal()))
                elif name == 'intension':
                    emit(tag, repr(obj.intension(args[1])))
                elif name == 'extension':
                    emit(tag, repr(obj.extension(args[1])))
                elif name == 'getitem':
                    emit(tag, repr(obj[tuple(args[1])]))
                elif name == 'lattice_getitem':
                    emit(tag, repr(obj.lattice[tuple(args[1])]))
                elif name == 'graphviz':
                    emit(tag, obj.lattice.graphviz().source)
                elif name == 'badformat':
                    # an unsupported format name / file suffix through every entry point that takes one
                    bad = args[1]
                    probes = [lambda: obj.tostring(bad), lambda: type(obj).fromstring('x', bad),
                              lambda: obj.tofile('nowhere.' + bad, bad), lambda: type(obj).fromfile('nowhere.txt', bad),
                              lambda: concepts.load('nowhere.' + bad), lambda: concepts.make_context('x', bad),
                              lambda: concepts.Definition.fromfile('nowhere.' + bad),
                              lambda: concepts.formats.Format[bad], lambda: concepts.formats.Format.infer_format('nowhere.' + bad)]
                    for k, probe in enumerate(probes):
                        try:
                            emit(f'{tag}.{k}', repr(probe()))
                        except Exception as e:  # noqa: BLE001
                            emit(f'{tag}.{k}', f'raised {type(e).__name__}: {e}')
                elif name == 'badcsv':
                    # a csv source whose cells are neither X/blank nor 1/0 (spreadsheet exports: TRUE/FALSE, yes/no, x/-)
                    symbols = args[1]
                    lines = [',' + ','.join(obj.properties)]
                    for k, o in enumerate(obj.objects):
                        lines.append(o + ',' + ','.join(symbols[(k + j) % len(symbols)] for j in range(len(obj.properties))))
                    text = '\r\n'.join(lines) + '\r\n'
                    for k, probe in enumerate([lambda: type(obj).fromstring(text, 'csv'), lambda: concepts.make_context(text, 'csv'),
                                               lambda: concepts.Definition.fromstring(text, 'csv')
                                               if hasattr(concepts.Definition, 'fromstring') else 'n/a']):
                        try:
                            emit(f'{tag}.{k}', repr(probe()))
                        except Exception as e:  # noqa: BLE001
                            emit(f'{tag}.{k}', f'raised {type(e).__name__}: {e}')
                elif name == 'to_definition':
                    env[args[1]] = obj.definition()
                    emit(tag, repr(env[args[1]]))
                elif name == 'to_context':
                    env[args[1]] = concepts.Context(*obj)
                    emit(tag, repr(env[args[1]]))
                elif name == 'def_op':
                    op = args[1]
                    res = dm.apply_real(obj, op)
                    emit(tag, f'{res!r} -> {obj!r}')
                elif name == 'derive':
                    other = env.get(args[2], obj)
                    der = args[3]
                    kind = der[0]
                    if kind == 'union':
                        res = obj.union(other, der[1])
                    elif kind == 'intersection':
                        res = obj.intersection(other, der[1])
                    elif kind == 'take':
                        res = obj.take(der[1], der[2], reorder=der[3])
                    elif kind == 'take_present':
                        # names taken from the definition itself (reversed / rotated), so the call always succeeds
                        objs = list(obj.objects)[::-1] if der[1] else None
                        props = list(obj.properties)
                        props = (props[1:] + props[:1])[::-1] if der[2] else None
                        res = obj.take(objs, props, reorder=der[3])
                    elif kind == 'transposed':
                        res = obj.transposed()
                    elif kind == 'inverted':
                        res = obj.inverted()
                    else:
                        res = obj.copy()
                    env[args[1]] = res
                    emit(tag, repr(res) + '\n' + str(res))
                else:
                    emit(tag, 'unknown step')
        except Exception as e:  # noqa: BLE001 - the message is part of the transcript
            emit(tag, f'raised {type(e).__name__}: {e}')
    return out
