"""Common plan/run for checks whose domain is 'all context tables'.

A check supplies ``check_one(case, ctx, deep)``; this module supplies the
enumerations (exhaustive blocks, row multisets, Hypothesis shards, fixed
structured tables) and cuts them into worker tasks.
"""

import itertools

from . import gen


def plan(tier, seed, *, quick_cells=12, thorough_cells=16, thorough_shapes=((4, 5), (5, 4)),
         thorough_multisets=((5, 5), (6, 4)), quick_multisets=(),
         hyp_quick=(12, 250), hyp_thorough=(16, 2500), profiles=('small', 'medium'),
         block=4096, wide=False, mid=True, tall=False, odd=False, fixed=()):
    tasks = []
    if tier == 'quick':
        tasks += gen.exhaustive_blocks(quick_cells, block=block)
        shards, examples = hyp_quick
        multisets = quick_multisets
    else:
        tasks += gen.exhaustive_blocks(thorough_cells, block=block * 2)
        tasks += gen.exhaustive_blocks(0, block=block * 2, shapes=list(thorough_shapes)) if thorough_shapes else []
        shards, examples = hyp_thorough
        multisets = thorough_multisets
    for (n, m) in multisets:
        total = _n_multisets(n, m)
        step = 8192
        for start in range(0, total, step):
            tasks.append({'kind': 'multiset', 'n': n, 'm': m, 'start': start, 'stop': min(total, start + step)})
    for k in range(shards):
        prof = profiles[k % len(profiles)]
        tasks.append({'kind': 'hyp', 'profile': prof, 'examples': examples, 'shard': k,
                      'seed': seed * 1000 + k})
    if wide:
        for k in range(max(2, shards // 4)):
            tasks.append({'kind': 'hyp', 'profile': 'wide', 'examples': max(50, examples // 4),
                          'shard': 100 + k, 'seed': seed * 1000 + 100 + k})
    if mid:
        n_mid, ex_mid = (3, 12) if tier == 'quick' else (8, 150)
        for k in range(n_mid):
            tasks.append({'kind': 'hyp', 'profile': 'mid', 'examples': ex_mid, 'shard': 200 + k,
                          'seed': seed * 1000 + 200 + k})
    if odd:
        n_odd, ex_odd = (2, 60) if tier == 'quick' else (6, 600)
        for k in range(n_odd):
            tasks.append({'kind': 'hyp', 'profile': 'odd', 'examples': ex_odd, 'shard': 400 + k,
                          'seed': seed * 1000 + 400 + k})
    if tall:
        n_tall, ex_tall = tall if isinstance(tall, tuple) else ((2, 8) if tier == 'quick' else (6, 60))
        for k in range(n_tall):
            tasks.append({'kind': 'hyp', 'profile': 'tall', 'examples': ex_tall, 'shard': 300 + k,
                          'seed': seed * 1000 + 300 + k})
    for f in fixed:
        tasks.append({'kind': 'fixed', 'name': f})
    return gen.balance(tasks, weight=_weight)


def _weight(t):
    if t['kind'] in ('exhaustive', 'multiset'):
        return (t['stop'] - t['start']) * (1 + t['n'] * t['m'] / 8)
    if t['kind'] == 'hyp':
        return t['examples'] * (400 if t.get('profile') in ('mid', 'tall') else 12)
    return 10 ** 9  # fixed tasks first


def _n_multisets(n, m):
    import math
    return math.comb((1 << m) + n - 1, n)


def run(task, ctx, check_one, strategy_of=None, fixed_cases=None):
    kind = task['kind']
    if kind == 'exhaustive':
        n, m = task['n'], task['m']

        def loop():
            for t in range(task['start'], task['stop']):
                check_one(gen.table_from_index(n, m, t, ctx.seed), ctx, False)
        ctx.guarded(loop)
        ctx.count('exhaustive_tables', task['stop'] - task['start'])
    elif kind == 'multiset':
        n, m = task['n'], task['m']
        olab = gen.labels('o', gen.seeded_perm(n, 'o', n, m, ctx.seed))
        plab = gen.labels('p', gen.seeded_perm(m, 'p', n, m, ctx.seed))

        def loop():
            it = itertools.islice(gen.row_multisets(n, m), task['start'], task['stop'])
            for rows in it:
                # one seed-derived order of the multiset
                perm = gen.seeded_perm(n, rows, ctx.seed)
                check_one(gen.mk_case(olab, plab, [rows[i] for i in perm]), ctx, False)
        ctx.guarded(loop)
        ctx.count('multiset_tables', task['stop'] - task['start'])
    elif kind == 'hyp':
        if strategy_of is not None and task['profile'] not in ('wide', 'mid', 'tall', 'odd'):
            strat = strategy_of(task)
        elif task['profile'] == 'wide':
            strat = gen.wide_tables()
        elif task['profile'] == 'mid':
            strat = gen.mid_tables()
        elif task['profile'] == 'tall':
            strat = gen.tall_tables()
        elif task['profile'] == 'odd':
            strat = gen.odd_tables()
        else:
            strat = gen.tables(task['profile'])
        deep = task['profile'] != 'tall'   # tall tables: one plain pass (the history devices cost minutes at this size)
        ctx.hypothesis(lambda case: check_one(case, ctx, deep), strat,
                       task['examples'], task['seed'], shrink=task.get('shrink', True))
    elif kind == 'fixed':
        def loop():
            for case in fixed_cases(task['name']):
                # big structured cases get one plain pass (the history devices would multiply minutes)
                check_one(case, ctx, not str(case.get('f', '')).startswith('big'))
        ctx.guarded(loop)
    else:
        raise ValueError(kind)
