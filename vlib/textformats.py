"""Independent readers and writers of the context text formats, written from the format descriptions.

* cross table ("table"): a header row of ``|``-separated property names (first cell blank),
  then one row per object: object name, then one cell per property, each cell terminated by
  ``|``; a cell is true iff it is not blank.  ``#`` starts a comment, blank lines are ignored.
* Burmeister CXT: ``B``, a blank line (unnamed context), number of objects, number of
  attributes, a blank line, the object names, the attribute names, then one line per object
  of ``X`` / ``.``.
* CSV (RFC 4180): records of delimiter-separated fields, a field may be enclosed in double
  quotes (then ``""`` is a quote and delimiters / line breaks are data); first record is the
  header (first field = object header), cells are ``X`` / empty or ``1`` / ``0``.
* MediaWiki table: ``{| ...``, a header of ``!``-cells (first empty), per object ``|-``,
  ``!name`` and a line of ``||``-separated cells, closed by ``|}``.
* FIMI .dat: one line per row listing the 0-based indexes of its true cells, blank separated.

None of this code is derived from ``concepts.formats``.
"""


class FormatError(Exception):
    pass


# ---------------------------------------------------------------------------
# cross table

def read_table(text):
    rows = []
    for raw in text.split('\n'):
        line = raw.split('#', 1)[0]
        if not line.strip():
            continue
        cells = line.split('|')
        if len(cells) < 2:
            raise FormatError(f'no | in line {raw!r}')
        if cells[-1].strip():
            raise FormatError(f'text after the last | in {raw!r}')
        rows.append([c.strip() for c in cells[:-1]])
    if not rows:
        raise FormatError('empty table')
    header = rows[0]
    if header[0]:
        raise FormatError(f'first header cell not blank: {header!r}')
    properties = header[1:]
    objects = []
    bools = []
    for r in rows[1:]:
        if len(r) != len(header):
            raise FormatError(f'row {r!r} has {len(r) - 1} cells, header has {len(properties)}')
        objects.append(r[0])
        bools.append(tuple(bool(c) for c in r[1:]))
    return objects, properties, bools


def write_table(objects, properties, bools, style='docs'):
    """Layout variants the description allows."""
    if style == 'tight':      # no alignment: every cell is a single character
        lines = ['|' + ''.join(p + '|' for p in properties)]
        for o, row in zip(objects, bools):
            lines.append(o + '|' + ''.join(('X' if b else ' ') + '|' for b in row))
        return '\n'.join(lines)
    w0 = max(len(o) for o in objects)
    if style == 'docs':       # centred crosses, one blank around names, leading newline, indent
        ws = [len(p) + 2 for p in properties]
        lines = ['', '  ' + ' ' * w0 + '|' + ''.join(' ' + p + ' |' for p in properties)]
        for o, row in zip(objects, bools):
            lines.append('  ' + o.ljust(w0) + '|' + ''.join(('X' if b else '').center(w) + '|' for w, b in zip(ws, row)))
        return '\n'.join(lines) + '\n'
    if style == 'comments':   # right-aligned names, comments, blank lines, other cross symbols
        ws = [len(p) for p in properties]
        lines = ['# a context', ' ' * w0 + '|' + ''.join(p + '|' for p in properties) + ' # header', '']
        for k, (o, row) in enumerate(zip(objects, bools)):
            mark = 'x+*1'[k % 4]
            lines.append(o.rjust(w0) + '|' + ''.join((mark if b else '').rjust(w) + '|' for w, b in zip(ws, row)) + '#' * (k % 2))
        return '\n'.join(lines) + '\n\n'
    raise ValueError(style)


def render_table(objects, properties, bools, indent=0):
    """The documented layout: names left-aligned, the object column as wide as the longest object name,
    every property column as wide as its name, a cross at the left of its cell, ``|`` after every cell."""
    w0 = max(len(o) for o in objects)
    pad = ' ' * indent
    lines = [pad + ' ' * w0 + '|' + ''.join(p + '|' for p in properties)]
    for o, row in zip(objects, bools):
        lines.append(pad + o + ' ' * (w0 - len(o)) + '|'
                     + ''.join(('X' if b else ' ') + ' ' * (len(p) - 1) + '|' for p, b in zip(properties, row)))
    return '\n'.join(lines)


# ---------------------------------------------------------------------------
# Burmeister

def read_cxt(text):
    lines = text.split('\n')
    while lines and lines[-1] == '':
        lines.pop()
    if len(lines) < 5 or lines[0] != 'B' or lines[1] != '' or lines[4] != '':
        raise FormatError(f'bad Burmeister header: {lines[:5]!r}')
    try:
        n, m = int(lines[2]), int(lines[3])
    except ValueError:
        raise FormatError(f'bad counts {lines[2:4]!r}')
    body = lines[5:]
    if len(body) != n + m + n:
        raise FormatError(f'{len(body)} body lines for {n} objects and {m} attributes')
    objects = body[:n]
    properties = body[n:n + m]
    bools = []
    for line in body[n + m:]:
        if len(line) != m or set(line) - set('X.'):
            raise FormatError(f'bad cross row {line!r}')
        bools.append(tuple(ch == 'X' for ch in line))
    return objects, properties, bools


def write_cxt(objects, properties, bools, final_newline=True):
    lines = ['B', '', str(len(objects)), str(len(properties)), '']
    lines += list(objects) + list(properties)
    lines += [''.join('X' if b else '.' for b in row) for row in bools]
    return '\n'.join(lines) + ('\n' if final_newline else '')


# ---------------------------------------------------------------------------
# CSV (own RFC 4180 state machine)

def parse_csv(text, delimiter=','):
    records = []
    record = []
    field = []
    i = 0
    n = len(text)
    quoted = False       # inside quotes
    was_quoted = False   # current field started with a quote
    at_field_start = True
    while i < n:
        ch = text[i]
        if quoted:
            if ch == '"':
                if i + 1 < n and text[i + 1] == '"':
                    field.append('"')
                    i += 2
                    continue
                quoted = False
                i += 1
                continue
            field.append(ch)
            i += 1
            continue
        if ch == '"' and at_field_start:
            quoted = True
            was_quoted = True
            at_field_start = False
            i += 1
            continue
        if ch == delimiter:
            record.append(''.join(field))
            field = []
            at_field_start = True
            was_quoted = False
            i += 1
            continue
        if ch == '\r' or ch == '\n':
            if ch == '\r' and i + 1 < n and text[i + 1] == '\n':
                i += 1
            record.append(''.join(field))
            records.append(record)
            record, field = [], []
            at_field_start = True
            was_quoted = False
            i += 1
            continue
        if was_quoted:
            raise FormatError(f'data after closing quote at {i}')
        field.append(ch)
        at_field_start = False
        i += 1
    if quoted:
        raise FormatError('unterminated quoted field')
    if field or record or was_quoted:
        record.append(''.join(field))
        records.append(record)
    return records


def read_csv(text, delimiter=','):
    records = parse_csv(text, delimiter)
    if not records:
        raise FormatError('no header')
    header = records[0]
    properties = header[1:]
    objects, bools = [], []
    symbols = set()
    for r in records[1:]:
        if len(r) != len(header):
            raise FormatError(f'record {r!r} has {len(r)} fields, header {len(header)}')
        objects.append(r[0])
        symbols.update(r[1:])
    if symbols <= {'X', ''}:
        true = 'X'
    elif symbols <= {'1', '0'}:
        true = '1'
    else:
        raise FormatError(f'mixed cell symbols {sorted(symbols)!r}')
    for r in records[1:]:
        bools.append(tuple(c == true for c in r[1:]))
    return header[0], objects, properties, bools


def _csv_field(s, quote_all, delimiter):
    if quote_all or any(c in s for c in (delimiter, '"', '\r', '\n')):
        return '"' + s.replace('"', '""') + '"'
    return s


def write_csv(objects, properties, bools, quote_all=False, as_int=False, eol='\r\n', delimiter=',', object_header=''):
    def rec(fields):
        return delimiter.join(_csv_field(f, quote_all, delimiter) for f in fields) + eol
    out = [rec([object_header] + list(properties))]
    for o, row in zip(objects, bools):
        out.append(rec([o] + [('1' if b else '0') if as_int else ('X' if b else '') for b in row]))
    return ''.join(out)


# ---------------------------------------------------------------------------
# MediaWiki table

def read_wikitable(text):
    lines = text.split('\n')
    while lines and lines[-1] == '':
        lines.pop()
    if not lines or not lines[0].startswith('{|') or lines[-1].strip() != '|}':
        raise FormatError('not a wiki table')
    body = lines[1:-1]
    header = []
    k = 0
    while k < len(body) and body[k].startswith('!'):
        header.extend(body[k][1:].split('!!'))
        k += 1
    if not header or header[0].strip():
        raise FormatError(f'first header cell must be empty: {header!r}')
    properties = [h.strip() for h in header[1:]]
    objects, bools = [], []
    while k < len(body):
        if body[k].strip() != '|-':
            raise FormatError(f'row separator expected, got {body[k]!r}')
        if k + 2 >= len(body):
            raise FormatError('truncated row')
        name, cells = body[k + 1], body[k + 2]
        if not name.startswith('!') or not cells.startswith('|'):
            raise FormatError(f'bad row {name!r} {cells!r}')
        objects.append(name[1:].strip())
        cs = cells[1:].split('||')
        if len(cs) != len(properties):
            raise FormatError(f'{len(cs)} cells for {len(properties)} properties')
        bools.append(tuple(bool(c.strip()) for c in cs))
        k += 3
    return objects, properties, bools


# ---------------------------------------------------------------------------
# FIMI

def read_fimi(text):
    lines = text.split('\n')
    if lines and lines[-1] == '':
        lines.pop()
    return [tuple(int(tok) for tok in line.split()) for line in lines]
